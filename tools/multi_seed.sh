#!/bin/sh
# Zero-alarm check at several base seeds on a COPY of the repository (for `vp run --with-repo -- tools/multi_seed.sh 2 3 4`).
ROOT=$(cd "$(dirname "$0")/.." && pwd)
cd "$ROOT"
REPO=${VP_RUN_REPO:-/repo}
export GBSIM_REPO="$REPO"
[ "$REPO" != /repo ] && sed -i "s|\"/repo/src/|\"$REPO/src/|" sim/shadow/lib.rs
./check build || exit 2
for seed in "$@"; do
  echo "== VERIF_SEED=$seed"
  VERIF_SEED=$seed tools/run_all.sh quick 2>&1 | grep -v "^KNOWN"
done
