#!/usr/bin/env python3
"""store_seed.py <round> <P:X> ... : verify (verify_seed.py, scratch worktree) and evaluate (try_seed.py, own property's quick
check) the seeded change /tmp/seed-<P>/<X>.* and, if the verification holds, store it as seeded/<P>-<X>/ (patch.diff,
demo.patch.diff, meta.json). Prints one line per seed; appends nothing elsewhere."""
import json, os, shutil, subprocess, sys
ROOT = os.path.dirname(os.path.dirname(os.path.abspath(__file__)))
rnd = int(sys.argv[1])
for s in sys.argv[2:]:
    p, x = s.split(":")
    src = f"/tmp/seed-{p}"
    prop = p[:3]
    cache = f"{ROOT}/work/verify-cache/{p}-{x}.json"   # written by a parallel `verify_seed.py <dir> <X> > cache` pre-pass, same procedure
    if os.path.exists(cache):
        v = json.loads(open(cache).read().strip().splitlines()[-1])
    else:
        v = json.loads(subprocess.run(["python3", f"{ROOT}/tools/verify_seed.py", src, x], capture_output=True, text=True).stdout.strip().splitlines()[-1])
    ok = v.get("patch_applies") and "98 passed" in v.get("tests_nojit", "") and "98 passed" in v.get("tests_jit", "") and v.get("demo_applies") and v.get("demo_with_change") == "FAILED" and v.get("demo_without_change") == "ok"
    if not ok:
        print(f"{p}-{x}: NOT VERIFIED {json.dumps(v)[:500]}")
        continue
    tcache = f"{ROOT}/work/try-cache/{p}-{x}.json"   # same, for a try_seed.py pre-pass
    if os.path.exists(tcache):
        t = json.loads(open(tcache).read().strip().splitlines()[-1])
    else:
        t = json.loads(subprocess.run(["python3", f"{ROOT}/tools/try_seed.py", f"{src}/{x}.patch.diff", prop], capture_output=True, text=True).stdout.strip().splitlines()[-1])
    am = json.load(open(f"{src}/{x}.meta.json"))
    dst = f"{ROOT}/seeded/{p}-{x}"
    os.makedirs(dst, exist_ok=True)
    shutil.copy(f"{src}/{x}.patch.diff", f"{dst}/patch.diff")
    shutil.copy(f"{src}/{x}.demo.patch.diff", f"{dst}/demo.patch.diff")
    res = {k: {"exit": r.get("exit"), "signatures": r.get("signatures", [])} for k, r in t.get("results", {}).items()}
    meta = {
        "id": f"{p}-{x}", "property": prop, "round": rnd,
        "summary": am.get("summary", ""), "needs_to_manifest": am.get("needs", am.get("needs_to_manifest", "")), "files": am.get("files", []),
        "author": "fresh sub-agent given only the property text, a focus area inside the anchored files and a scratch worktree",
        "verified_by_me": {
            "how": "tools/verify_seed.py in a scratch worktree under /tmp (removed afterwards): git apply patch; cargo test --offline; cargo test --offline --features jit; git apply demo; demo command; git apply -R patch; demo command",
            "tests_without_jit": v["tests_nojit"], "tests_with_jit": v["tests_jit"], "demo_command": v["demo_cmd"],
            "demo_with_change": v["demo_with_change"], "demo_without_change": v["demo_without_change"],
        },
        "checks_run": {"how": "tools/try_seed.py: git -C /repo apply patch.diff; ./check <property> quick; git -C /repo checkout -- .", "first_run": res},
    }
    json.dump(meta, open(f"{dst}/meta.json", "w"), indent=1)
    print(f"{p}-{x}: stored; {prop} exit={res.get(prop, {}).get('exit')} {res.get(prop, {}).get('signatures', [])[:2]}")
