#!/bin/sh
# tools/run_all.sh [quick|thorough] : every claimed check in sequence; summary line per property
ROOT=$(cd "$(dirname "$0")/.." && pwd)
TIER=${1:-quick}
cd "$ROOT"
rc=0
for p in $(python3 -c "import json;print(' '.join(c['property_id'] for c in json.load(open('MANIFEST.json'))['checks']))"); do
  out=$(./check $p $TIER 2>&1); code=$?
  echo "$p exit=$code $(echo "$out" | grep -E "^$p:" | tail -1)"
  echo "$out" | grep -E "^(VIOLATION|KNOWN-FINDING|HARNESS-ERROR)" | cut -c1-200
  [ $code -ne 0 ] && rc=1
done
exit $rc
