#!/usr/bin/env python3
"""Regenerates /verif/MANIFEST.json from the table below (kept in one place so the
manifest stays consistent with what is implemented)."""
import json, os, subprocess

ROOT = os.path.dirname(os.path.dirname(os.path.abspath(__file__)))

NA = {
 "C05": "Pure function of (opcode, A, operand, F): no time, history, second party or fault for a simulator to schedule; deciding it needs exhaustive enumeration/SMT against an independent ALU table, a different technique family (DESIGN.md section 5).",
 "C06": "Pure function of (encoding, flags, PC, SP, two stack bytes): length, target, pushed bytes, cycle count and block-end flag per instruction; nothing to schedule or fault. STOP/HALT resumption is covered under C08 and cycle plumbing under C09 (DESIGN.md section 5).",
 "C20": "parse_command/parse_address/disassemble are pure functions of a string or byte slice with no I/O, state or time; totality over all inputs is an enumeration/fuzzing/proof question, not a simulation one (DESIGN.md section 5).",
}

# id -> (scenario names, level category, level text, level_note, technique, design_ref)
CHECKS = {}

def add(pid, scen, cat, text, note, tech, ref):
    CHECKS[pid] = (scen, cat, text, note, tech, ref)

exec(open(os.path.join(ROOT, "tools", "checks_table.py")).read())

def hook_commits():
    try:
        out = subprocess.check_output(["git", "-C", "/repo", "log", "--format=%H %s"], text=True)
    except Exception:
        return []
    return [l.split()[0] for l in out.splitlines() if l.split(" ", 1)[1].startswith("verif hooks:")][::-1]

def main():
    props = [json.loads(l)["id"] for l in open(os.path.join(ROOT, "properties.jsonl"))]
    checks = []
    na = []
    for pid in props:
        if pid in CHECKS:
            scen, cat, text, note, tech, ref = CHECKS[pid]
            checks.append({
                "property_id": pid,
                "quick_cmd": f"./check {pid} quick",
                "thorough_cmd": f"./check {pid} thorough",
                "evidence_file": f"/verif/evidence/{pid}.json",
                "replay_cmd_template": "./check replay {path}",
                "engine": "gbsim",
                "level_claimed": {"category": cat, "text": text, "design_ref": ref},
                "level_note": note,
                "technique": tech,
            })
        elif pid in NA:
            na.append({"property_id": pid, "reason": NA[pid]})
        else:
            na.append({"property_id": pid, "reason": "check not built yet in this tree (work in progress; see DESIGN.md section 4 for the planned scenario)"})
    m = {
        "version": 1,
        "setup_cmd": "./check build",
        "hooks": {
            "guard": "gb_dynarec_verif",
            "enable": "rustc --cfg gb_dynarec_verif (RUSTFLAGS for the real binary; sim/.cargo/config.toml for the shadow crates that compile /repo/src/*.rs via #[path])",
            "baseline_off_cmd": "cd /repo && cargo test --workspace --no-fail-fast --offline",
            "source_commits": hook_commits(),
            "add_only": True,
        },
        "engines": [{
            "name": "gbsim",
            "path": "/verif/sim",
            "serves_properties": sorted(CHECKS.keys()),
            "kind_free_text": "hand-written deterministic simulator: seeded scheduler (xoshiro256**), replicas of the real emulator core (jit / non-jit shadow crates compiled from /repo/src), reference models, fault injection (cache flush, arena capacity, bank switches, joypad/IF events, batch partitions, file damage), worker subprocesses for crash observation, delta-debugging shrinker, explicit-op replay files",
        }],
        "checks": checks,
        "not_applicable": na,
        "notes": "All checks: ./check <id> <quick|thorough>; VERIF_SEED selects the base seed (default 1); thorough budget VERIF_THOROUGH_SECS (default 600 s). Exit 0 held / known findings only, 1 VIOLATION, 2 harness error. Known findings: /verif/known_findings.json.",
    }
    json.dump(m, open(os.path.join(ROOT, "MANIFEST.json"), "w"), indent=1)
    print("MANIFEST.json:", len(checks), "checks,", len(na), "not applicable")

main()
