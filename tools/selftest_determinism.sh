#!/bin/sh
# Runs every scenario's first N run indices three times (1, 4 and 16 workers, separate worker processes, ASLR on)
# and compares violation lists and merged coverage. Usage: tools/selftest_determinism.sh [N]
ROOT=$(cd "$(dirname "$0")/.." && pwd)
N=${1:-600}
cd "$ROOT" && ./check build >/dev/null || exit 2
rc=0
for sf in timer_batches:C13 block_lockstep:C01 block_lockstep:C02 bus_crash:C11 mbc_history:C12 cache_bank_history:C03 joypad_events:C17 lcd_batches:C14 dma_batches:C16 bus_history:C10 irq_dispatch:C07 ime_sequences:C08 program_lockstep:C04 time_conservation:C09 serial_stdout:C18 rom_load_faults:C19 frame_render:C15; do
  s=${sf%%:*}; f=${sf##*:}
  ./check selftest determinism "$s" "$f" "$N" | grep -v conda || rc=1
done
exit $rc
