#!/bin/sh
# Cross matrix: every seeded change under seeded/ against every claimed check (quick tier), on a COPY of the repository.
# Meant for `vp run --with-repo -- tools/seed_matrix.sh`: the working directory is a snapshot of /verif, $VP_RUN_REPO a
# snapshot of /repo. Nothing here touches /repo or /verif. Output: seeded/MATRIX.jsonl in the snapshot.
ROOT=$(cd "$(dirname "$0")/.." && pwd)
cd "$ROOT"
REPO=${VP_RUN_REPO:-$1}
[ -d "$REPO/src" ] || { echo "no repository copy given"; exit 2; }
export GBSIM_REPO="$REPO"
sed -i "s|\"/repo/src/|\"$REPO/src/|" sim/shadow/lib.rs
./check build || exit 2
PROPS=$(python3 -c "import json;print(' '.join(c['property_id'] for c in json.load(open('MANIFEST.json'))['checks']))")
: > seeded/MATRIX.jsonl
# optional file with one seed id per line that are already done (skipped)
SKIP=${SEED_MATRIX_SKIP:-/dev/null}
for d in seeded/*/; do
  id=$(basename $d)
  [ -f "$d/patch.diff" ] || continue
  grep -qx "$id" "$SKIP" 2>/dev/null && continue
  # SEED_MATRIX_DIAGONAL=1: only the check of the property the change was written against
  P="$PROPS"; [ -n "$SEED_MATRIX_DIAGONAL" ] && P=$(echo $id | cut -c1-3)
  VERIF_MAX_MINIMISE=1 python3 tools/try_seed.py $d/patch.diff $P 2>/dev/null | tail -1 | sed "s|^{|{\"seed\":\"$id\",|" >> seeded/MATRIX.jsonl
  echo "$id done"
done
