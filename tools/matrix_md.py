#!/usr/bin/env python3
"""matrix_md.py <MATRIX.jsonl> > seeded/MATRIX.md : which quick check flags which seeded change"""
import json, sys
rows = []
props = None
for l in open(sys.argv[1], errors="replace"):
    try:
        d = json.loads(l, strict=False)
    except Exception:
        continue
    r = d.get("results", {})
    if props is None:
        props = list(r.keys())
    rows.append((d["seed"], r))
print("# Cross matrix: seeded change x quick check\n")
print("`X` = the check exits 1 with at least one VIOLATION that is not a known finding; `.` = exits 0; `E` = harness error (exit 2).")
print("Produced by tools/seed_matrix.sh on a copy of the repository at the commit named in DESIGN.md A.4.\n")
print("| seed | " + " | ".join(props) + " | caught by |")
print("|---|" + "---|" * (len(props) + 1))
for seed, r in rows:
    cells = []
    caught = []
    for p in props:
        x = r.get(p, {})
        e = x.get("exit")
        c = "X" if e == 1 else ("." if e == 0 else "E")
        if e == 1:
            caught.append(p)
        cells.append(c)
    print(f"| {seed} | " + " | ".join(cells) + " | " + (", ".join(caught) or "none") + " |")
