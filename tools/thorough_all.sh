#!/bin/sh
# Every claimed check's thorough tier on a COPY of the repository (for `vp run --with-repo -- tools/thorough_all.sh [secs]`).
# The evidence it writes lands in the snapshot, not in /verif: results are informational; committed evidence always
# comes from ./check run in /verif against /repo.
ROOT=$(cd "$(dirname "$0")/.." && pwd)
cd "$ROOT"
REPO=${VP_RUN_REPO:-/repo}
export GBSIM_REPO="$REPO"
[ "$REPO" != /repo ] && sed -i "s|\"/repo/src/|\"$REPO/src/|" sim/shadow/lib.rs
export VERIF_THOROUGH_SECS=${1:-300}
./check build || exit 2
for p in $(python3 -c "import json;print(' '.join(c['property_id'] for c in json.load(open('MANIFEST.json'))['checks']))"); do
  out=$(./check $p thorough 2>&1); code=$?
  echo "$p exit=$code $(echo "$out" | grep -E "^$p:" | tail -1)"
  echo "$out" | grep -E "^(VIOLATION|HARNESS-ERROR|  C[0-9]+/)" | cut -c1-400
done
