DST = "deterministic simulation with fault injection"
add("C01", ["block_lockstep"], "exploration",
    "Seeded search over (cartridge, basic block, CPU/RAM/device state, cache-age schedule): the block is run as translated code on one replica of the real core and by the interpreter on an identical replica; registers, status, every RAM region, I/O registers, hidden device state and the bus-write trace (order and values) are compared, and the worker process must survive. Run index i forces encoding i mod 500, so every defined encoding is exercised equally. Sampling, not proof.",
    "The interpreter is the reference by the property's own wording; a common-mode decoder error is invisible here (C05/C06, not applicable under this technique). Known finding: a block in the switchable bank that remaps its own bank.",
    DST + ": replica lockstep (translated vs interpreted) under cache-age, arena-placement, bank-placement schedules; process death observed in workers", "DESIGN.md section 4 C01")
add("C02", ["block_lockstep"], "exploration",
    "Same runs as C01 with the cycles oracle only: machine cycles reported by translated code vs interpreter per block (engine level), and last_block_cycle_length plus DIV/LY/STAT/DMA progress after Core::run_code_block (device time seen). All conditional terminators x all 16 flag states are reached every quick batch (reported as cond_outcomes).",
    "Interpreter/decoder cycle table is the reference (its own correctness is C06, not applicable here). Cases in which the block remapped its own bank are not compared (the engines did not run the same instructions).",
    DST + ": replica lockstep, cycle oracle", "DESIGN.md section 4 C02")
add("C03", ["cache_bank_history"], "exploration",
    "Seeded histories over multi-bank MBC1/MBC3/ROM-only cartridges whose banks hold different code at the same addresses: trampoline dispatches (guest-code bank switches), direct bank-register writes, flushes, IF pokes, joypad events, small-arena faults; three replicas of the real core (warm cache / cache emptied before every step / interpreter-only build) stepped in lockstep with full-state comparison after every step, plus a white-box check that every warm-cache hit is a translation of the bytes mapped now.",
    "Known finding: block in the switchable window that remaps its own bank (excluded from the generator except at a low rate, reported under its own signature).",
    DST + ": three-replica lockstep under bank-switch histories with cache flush / arena-capacity faults", "DESIGN.md section 4 C03")
add("C11", ["bus_crash"], "fault_enumeration",
    "All 504 (type, ROM-size code, RAM-size code) header combinations round-robin, each with seeded bank-register histories and boundary-biased byte/word reads and writes, fetch views and a stack/word-access program in both engines, executed in worker subprocesses built with overflow checks; any worker death or panic is a violation.",
    "Register histories and addresses are sampled, configurations are enumerated. Files are as large as declared (shorter files: C19).",
    DST + ": configuration enumeration x seeded access histories; fault = process death observed by the driver", "DESIGN.md section 4 C11")
add("C12", ["mbc_history"], "exploration",
    "All 504 header combinations round-robin x seeded histories of writes to 0x0000-0x7FFF; after every write the visible ROM bank (three probe addresses + fetch view + executing the bank's stub in both engines) and RAM bank are compared with an independent RefMbc model.",
    "Trusts RefMbc (written from the statement: 5/7-bit masks, 0->1 in both MBC1 modes, upper bits/mode select, reduction modulo actual size). RAM-enable gating and MBC3 RTC selection are not asserted.",
    DST + ": register-write histories vs reference controller model", "DESIGN.md section 4 C12")
add("C13", ["timer_batches"], "exploration",
    "Seeded search over timed histories of timer register writes and elapsed-time gaps; the real Timer runs under three batch partitions of the same time and is compared after every operation with a per-clock reference model and with the other partitions. Sampling, not proof; evidence reports TAC-write transition cells reached.",
    "Trusts the RefTimer model (per-clock divider, falling-edge rule from the statement); DIV-write edge left open (spec set).",
    DST + ": batch-partition schedules vs per-clock reference model", "DESIGN.md section 4 C13")
add("C14", ["lcd_batches"], "exploration",
    "Seeded timed histories (2-8 frames) with STAT/LYC writes; the real VideoState runs under three partitions of each gap (every machine cycle, per line, drawn sizes straddling mode changes and the 143->144 / 153->0 hand-overs) directly and through the bus; LY, mode, STAT read-back and the VBlank/STAT request bits of every batch are compared with a closed-form 70224-clock schedule; on the 4-clock partition every request is pinned to its machine cycle and VBlank spacing must be exactly 70224.",
    "Trusts the closed-form RefLcd (from the statement). A STAT request raised by a STAT/LYC register write whose condition already holds is allowed, not required.",
    DST + ": batch-partition schedules vs closed-form reference", "DESIGN.md section 4 C14")
add("C17", ["joypad_events"], "exploration",
    "Random walks over the (8 buttons x 2 select bits) state space with external press/release events, select writes and drawn collection points, on the real Joypad directly and through the bus/IO path; P1 & 0x3F after every action and the request latch at every collection point are compared with RefJoypad. The evidence reports how many of the 20480 transitions were taken (all, in the quick tier).",
    "Trusts RefJoypad (from the statement). Sampling of walks; the full transition relation is reached but interleavings of collection points are sampled.",
    DST + ": external-event schedules vs reference button-matrix model", "DESIGN.md section 4 C17")
add("C10", ["bus_history"], "exploration",
    "Seeded histories of byte/word reads and writes, fetch-view requests, elapsed time, OAM DMA starts, bank-register writes and joypad events on a core built from a generated cartridge of every supported type and RAM size, compared with an independent RefBus (memory map + timer/LCD/joypad/DMA models): probe sweep (aliases under every single-bit stride, region edges, drawn sample) after every write, all 65536 addresses every 64 operations, fetch view vs data reads, and 'a storage write changes nothing else' checked even at addresses whose value the statement leaves open.",
    "Trusts RefBus and the device models it embeds (RefTimer, RefLcd, RefJoypad, RefMbc). Addresses/values are sampled (boundary-biased); not every (write, probe) pair of the 2^32 is tried.",
    DST + ": access histories with device time, DMA and bank switches vs reference bus model", "DESIGN.md section 4 C10")
add("C16", ["dma_batches"], "exploration",
    "All 256 source pages round-robin x seeded timed histories (writes into source/OAM during the transfer, bank switches under a banked source, restarts at drawn progress) under three batch partitions on the real MemoryAreas; OAM vs RefBus after every machine cycle (P4) and gap, all other memory digests unchanged by elapsed time, engine progress = min(160, cycles), replicas agree.",
    "Trusts RefBus's DMA rule (byte n copied at machine cycle n from the map as it stands). OAM bytes copied from sources whose read value the statement leaves open are not compared.",
    DST + ": batch-partition schedules with mid-transfer mutations vs reference DMA", "DESIGN.md section 4 C16")
add("C07", ["irq_dispatch"], "exploration",
    "State injection stratified over IF x IE x master enable x run state x a list of SP classes that put the two pushes on IE, IF, bank registers, DMA/serial/timer/LCD registers, ROM and region edges, plus device-driven histories (timer, LCD, joypad raise the requests at simulated times); Core::handle_interrupt is reached directly, through the halted path of update(), through run_interp() and through run_code_block() in both builds; IF, IE, master enable, run state, PC, SP, undelivered cycles, all RAM, bank mapping and DMA state are compared with RefIntc over RefBus after every step. Evidence reports how many of the 9216 (IF, IE, IME, run state) cells were reached (all, in the quick tier).",
    "Trusts RefIntc/RefBus. Low-byte push landing on IF: both orders accepted. Pushes onto RAM-enable / MBC3 RTC-select registers are not taken (effect not specified).",
    DST + ": state/history sampling vs reference interrupt controller; requests raised by simulated devices and injected at step boundaries", "DESIGN.md section 4 C07")
add("C08", ["ime_sequences"], "exploration",
    "Generated instruction sequences over {EI, DI, RETI, RET, HALT, STOP, NOP, raise-request, write-IE} in the main routine and in all five vectors, x initial master-enable/run state/pending set, x external IF pokes and joypad events delivered at step boundaries (biased to the EI shadow, to halted periods and to the step after DI/RETI); instruction-stepped in both builds and compared after every step with the RefIme state machine + RefIntc + RefBus.",
    "Trusts RefIme (EI delay, DI/RETI immediacy, HALT/STOP suspension as stated). HALT/STOP executed with an enabled request pending ends the run (outside the quantifier).",
    DST + ": instruction sequences x event-arrival schedules vs reference IME/HALT state machine", "DESIGN.md section 4 C08")
