DST = "deterministic simulation with fault injection"
add("C13", ["timer_batches"], "exploration",
    "Seeded search over timed histories of timer register writes and elapsed-time gaps; the real Timer runs under three batch partitions of the same time and is compared after every operation with a per-clock reference model and with the other partitions. Sampling, not proof; evidence reports TAC-write transition cells reached.",
    "Trusts the RefTimer model (per-clock divider, falling-edge rule from the statement); DIV-write edge left open (spec set).",
    DST + ": batch-partition schedules vs per-clock reference model", "DESIGN.md section 4 C13")
