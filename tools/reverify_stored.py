#!/usr/bin/env python3
"""reverify_stored.py <id> ... : re-verify stored seeded changes (seeded/<id>/) against /repo's current HEAD in scratch
worktrees under /tmp (verify_seed.py: applies, 98 tests pass with and without jit, demonstration fails with the change
and passes without it). Prints one JSON line per id."""
import json, os, shutil, subprocess, sys
ROOT = os.path.dirname(os.path.dirname(os.path.abspath(__file__)))
for sid in sys.argv[1:]:
    src = os.path.join(ROOT, "seeded", sid)
    tmp = f"/tmp/seed-R{sid}"
    shutil.rmtree(tmp, ignore_errors=True)
    os.makedirs(tmp)
    meta = json.load(open(os.path.join(src, "meta.json")))
    v = meta.get("verified_by_me", {})
    cmd = v.get("demo_command") or v.get("demo_cmd") or meta.get("demo_cmd") or "cargo test --offline"
    json.dump({"demo_cmd": cmd}, open(os.path.join(tmp, "A.meta.json"), "w"))
    shutil.copy(os.path.join(src, "patch.diff"), os.path.join(tmp, "A.patch.diff"))
    shutil.copy(os.path.join(src, "demo.patch.diff"), os.path.join(tmp, "A.demo.patch.diff"))
    r = subprocess.run(["python3", os.path.join(ROOT, "tools", "verify_seed.py"), tmp, "A"], capture_output=True, text=True)
    line = (r.stdout.strip().splitlines() or ["{}"])[-1]
    try:
        d = json.loads(line)
    except Exception:
        d = {"error": line[-300:] + r.stderr[-300:]}
    d["seed"] = sid
    print(json.dumps(d), flush=True)
    shutil.rmtree(tmp, ignore_errors=True)
