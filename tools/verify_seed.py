#!/usr/bin/env python3
"""verify_seed.py <seed-dir> <X>   (X = A or B)
Confirms in a scratch worktree (outside /repo and /verif) that the seeded change compiles, keeps the 98 tests passing
(with and without --features jit), and that its demonstration fails with the change and passes without it.
Prints a JSON line."""
import json, os, re, subprocess, sys, shutil

def sh(cmd, cwd, timeout=900):
    r = subprocess.run(cmd, shell=True, cwd=cwd, capture_output=True, text=True, timeout=timeout)
    return r.returncode, r.stdout + r.stderr

def main():
    d, x = sys.argv[1], sys.argv[2]
    wt = f"/tmp/vs-{os.path.basename(d)}-{x}"
    subprocess.run(["git", "-C", "/repo", "worktree", "remove", "--force", wt], capture_output=True)
    subprocess.run(["git", "-C", "/repo", "worktree", "add", "-q", "--detach", wt, "HEAD"], check=True)
    res = {"seed": d, "x": x}
    try:
        meta = json.load(open(os.path.join(d, f"{x}.meta.json")))
        patch = os.path.join(d, f"{x}.patch.diff")
        demo = os.path.join(d, f"{x}.demo.patch.diff")
        cmd = meta.get("demo_cmd", "")
        # the test filter / feature flags of the demo command
        m = re.search(r"cargo test[^&;|(#]*", cmd)
        test_cmd = m.group(0).strip() if m else "cargo test --offline"
        if "--offline" not in test_cmd:
            test_cmd += " --offline"
        res["demo_cmd"] = test_cmd
        rc, out = sh(f"git apply {patch}", wt)
        res["patch_applies"] = rc == 0
        rc, out = sh("cargo test --offline 2>&1 | grep 'test result'", wt)
        res["tests_nojit"] = out.strip()[-80:]
        rc, out = sh("cargo test --offline --features jit 2>&1 | grep 'test result'", wt)
        res["tests_jit"] = out.strip()[-80:]
        rc, out = sh(f"git apply {demo}", wt)
        res["demo_applies"] = rc == 0
        rc, out = sh(test_cmd + " 2>&1 | tail -5", wt)
        res["demo_with_change"] = "FAILED" if ("FAILED" in out or "error:" in out or "signal" in out) else ("ok" if "test result: ok" in out else "unclear:" + out[-200:])
        sh(f"git apply -R {patch}", wt)
        rc, out = sh(test_cmd + " 2>&1 | tail -5", wt)
        res["demo_without_change"] = "ok" if ("test result: ok" in out and " 0 passed" not in out) else "NOT-OK:" + out[-300:]
    finally:
        subprocess.run(["git", "-C", "/repo", "worktree", "remove", "--force", wt], capture_output=True)
        shutil.rmtree(wt, ignore_errors=True)
    print(json.dumps(res))

main()
