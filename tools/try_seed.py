#!/usr/bin/env python3
"""try_seed.py <patch.diff> <property> [<property> ...]
Applies a seeded change to /repo's working tree, runs the quick check of each listed property, restores /repo,
and prints one JSON line {patch, results: {prop: {exit, violations: [signature...], secs}}}.
Replay files written by the runs are moved to /verif/work/seed-replays/ (not kept under replays/)."""
import json, os, subprocess, sys, time, glob, shutil, re

ROOT = os.path.dirname(os.path.dirname(os.path.abspath(__file__)))
REPO = os.environ.get("GBSIM_REPO", "/repo")

def main():
    patch = os.path.abspath(sys.argv[1])
    props = sys.argv[2:]
    st = subprocess.run(["git", "-C", REPO, "status", "--porcelain", "--untracked-files=no"], capture_output=True, text=True).stdout.strip()
    if st:
        print("refusing: /repo has uncommitted changes", file=sys.stderr); sys.exit(2)
    r = subprocess.run(["git", "-C", REPO, "apply", patch], capture_output=True, text=True)
    if r.returncode != 0:
        print(json.dumps({"patch": patch, "error": "patch does not apply: " + r.stderr[:300]})); sys.exit(2)
    results = {}
    try:
        for p in props:
            before = set(glob.glob(os.path.join(ROOT, "replays", p + "-*.json")))
            ev = os.path.join(ROOT, "evidence", p + ".json")
            ev_saved = open(ev).read() if os.path.exists(ev) else None
            t0 = time.time()
            env = dict(os.environ)
            env.setdefault("VERIF_MAX_MINIMISE", "3")
            pr = subprocess.run([os.path.join(ROOT, "check"), p, "quick"], capture_output=True, text=True, cwd=ROOT, env=env)
            out = pr.stdout
            sigs = re.findall(r"^  signature (\S+) : (\d+) case", out, re.M)
            viol = re.findall(r"^VIOLATION property=(\S+) replay=(\S+)", out, re.M)
            harness = [l for l in out.splitlines() if l.startswith("HARNESS-ERROR")]
            results[p] = {"exit": pr.returncode, "signatures": [f"{s} x{n}" for s, n in sigs], "violations": len(viol), "harness_errors": harness[:3], "secs": round(time.time() - t0, 1)}
            if ev_saved is not None:
                open(ev, "w").write(ev_saved)  # evidence must describe the unchanged tree
            os.makedirs(os.path.join(ROOT, "work", "seed-replays"), exist_ok=True)
            for f in set(glob.glob(os.path.join(ROOT, "replays", p + "-*.json"))) - before:
                shutil.move(f, os.path.join(ROOT, "work", "seed-replays", os.path.basename(f)))
    finally:
        subprocess.run(["git", "-C", REPO, "checkout", "--", "."], check=False)
    print(json.dumps({"patch": patch, "results": results}))

main()
