#!/bin/sh
# tools/seed_pipeline.sh <P:X> ... : verify and evaluate seeded changes found in /tmp/seed-<P>/<X>.*; appends to work/seed-results.jsonl
ROOT=$(cd "$(dirname "$0")/.." && pwd)
cd "$ROOT"; mkdir -p work
for s in "$@"; do
  p=${s%%:*}; x=${s##*:}
  [ -f /tmp/seed-$p/$x.patch.diff ] || { echo "{\"seed\":\"$s\",\"error\":\"missing\"}" >> work/seed-results.jsonl; continue; }
  v=$(python3 tools/verify_seed.py /tmp/seed-$p $x 2>/dev/null | tail -1)
  prop=$(echo $p | cut -c1-3)
  t=$(python3 tools/try_seed.py /tmp/seed-$p/$x.patch.diff $prop 2>/dev/null | tail -1)
  echo "{\"seed\":\"$s\",\"verify\":$v,\"check\":$t}" >> work/seed-results.jsonl
done
