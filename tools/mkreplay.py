#!/usr/bin/env python3
"""mkreplay.py <out> <property> <scenario> <signature> <params-json> <blobs-json> <ops-json> — hand-write a replay file"""
import json, sys
out, prop, scen, sig, params, blobs, ops = sys.argv[1:8]
doc = {"property": prop, "scenario": scen, "violation": {"signature": sig, "detail": "(recorded before the fix)"},
       "case": {"scenario": scen, "seed": 0, "index": 0, "params": json.loads(params), "blobs": json.loads(blobs), "ops": json.loads(ops)}}
json.dump(doc, open(out, "w"), indent=1)
