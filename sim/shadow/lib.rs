// Shadow library crate: compiles the repository's own modules, unchanged, as a
// library so the simulator can link them. Every path points into /repo, so a
// rebuild always reflects /repo's current working tree. `shell` (host window /
// headless main loop) and `main.rs` are the only parts left out; the real
// binary is built separately for the process-level scenarios.
#![allow(warnings)]

#[path = "/repo/src/cache/mod.rs"]
pub mod cache;
#[path = "/repo/src/cpu.rs"]
pub mod cpu;
#[path = "/repo/src/cart.rs"]
pub mod cart;
#[path = "/repo/src/debug/mod.rs"]
pub mod debug;
#[path = "/repo/src/decoder/mod.rs"]
pub mod decoder;
#[path = "/repo/src/devices/mod.rs"]
pub mod devices;
#[path = "/repo/src/emitter/mod.rs"]
pub mod emitter;
#[path = "/repo/src/emulator.rs"]
pub mod emulator;
#[path = "/repo/src/interpreter/mod.rs"]
pub mod interpreter;
#[path = "/repo/src/mem.rs"]
pub mod mem;
#[path = "/repo/src/system/mod.rs"]
pub mod system;
#[path = "/repo/src/timing.rs"]
pub mod timing;
#[path = "/repo/src/verif.rs"]
pub mod verif;
