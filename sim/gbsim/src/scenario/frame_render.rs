//! C15 — the presented frame equals the reference composition. The real
//! VideoState is driven through one frame of simulated time (registers written
//! through the bus during the power-on VBlank, inputs constant), under several
//! batch partitions of the frame's clocks; the buffer presented at the VBlank
//! event is compared with RefRender.

use super::{Ctx, Info, Scenario, Violation};
use crate::cart::fill_pattern;
use crate::case::Case;
use crate::machine::{IntMachine, Machine};
use crate::model::render::{render, Layer, RenderIn};
use crate::prng::Rng;

pub struct FrameRender;

const FRAME: u64 = 70224;
const COORDS_Y: [u8; 14] = [0, 1, 8, 9, 15, 16, 17, 100, 143 + 16, 144 + 16, 152, 159, 160, 255];
const COORDS_X: [u8; 16] = [0, 1, 7, 8, 9, 15, 16, 17, 80, 159 + 8, 160 + 8, 160, 166, 167, 168, 255];

fn build_inputs(case: &Case) -> (Vec<u8>, Vec<u8>) {
    let seed = case.get("vseed") as u64;
    let style = case.get("vstyle");
    let mut vram = fill_pattern(seed ^ 0x51, 0x2000);
    if style == 1 {
        // structured tiles: tile t = solid / stripes / single-pixel markers
        for t in 0..384usize {
            for r in 0..8usize {
                let (lo, hi) = match t % 6 {
                    0 => (0x00, 0x00),
                    1 => (0xff, 0x00),
                    2 => (0x00, 0xff),
                    3 => (0xff, 0xff),
                    4 => (0xaa >> (r & 1), 0xcc),
                    _ => (1u8 << (t % 8), if r == (t / 8) % 8 { 0xff } else { 0x00 }),
                };
                vram[t * 16 + r * 2] = lo;
                vram[t * 16 + r * 2 + 1] = hi;
            }
        }
    } else if style == 2 {
        // sparse: mostly colour 0 so that objects behind the background show
        for i in 0..0x1800 {
            if (vram[i] as usize + i) % 3 != 0 {
                vram[i] = 0;
            }
        }
    }
    let mut oam = vec![0u8; 0xa0];
    let blob = case.blob("oam");
    for i in 0..0xa0.min(blob.len()) {
        oam[i] = blob[i];
    }
    (vram, oam)
}

impl Scenario for FrameRender {
    fn name(&self) -> &'static str {
        "frame_render"
    }
    fn quick_runs(&self, _f: &str) -> u64 {
        9600
    }
    fn chunk(&self) -> u64 {
        50
    }
    fn death_property(&self, _f: &str) -> Option<&'static str> {
        Some("C15")
    }
    fn info(&self) -> Info {
        Info {
            rule: "one case = VRAM (random bytes, structured marker tiles, or sparse tiles), both tile maps, 0-40 objects with coordinates drawn from edge lists (partly off-screen, X ties, clusters of more than ten on a line, overlaps), uniform attributes, LCDC bits 1-6 uniform (bits 7 and 0 set), SCX/SCY/WX/WY from edge lists or uniform, uniform palettes - all constant over the frame; the real VideoState (behind MemoryAreas/IO, registers written through the bus during the power-on VBlank) is advanced for exactly one frame under a partition of its 70224 clocks (4 at a time, per line, one batch, or drawn sizes that cut inside mode 3 at dots that are not multiples of 8); at the VBlank request the presented 160x144 buffer must equal RefRender pixel for pixel, and all partitions must present the same frame. distinct_nontrivial = distinct (LCDC bits 1-6, window position class, scroll fine bits, object-count class, partition) tuples",
            components_real: &["devices::video::VideoState mode-3 pixel pipeline, sprite search, tile fetch, window switch; video::lcd double buffer swap at the VBlank event; video::tile::interleave", "IO::set_byte for the LCD registers, MemoryAreas::run_clock_cycles"],
            components_stub: &["CPU absent; VRAM/OAM contents placed directly in the replica's storage before the frame starts"],
            assumptions: &["inputs constant over the frame (the statement's premise)", "8x16 objects: an odd tile index may be used as is or with bit 0 ignored (both accepted, per frame)", "window row = y - WY (the statement's composition; no internal window line counter)", "seeds here mostly buy input diversity; the schedule dimension is the batch partition and the publication of the frame by the VBlank event"],
            fault_kinds: &["step (batch partition of the frame)"],
        }
    }

    fn generate(&self, rng: &mut Rng, index: u64, _thorough: bool, case: &mut Case) {
        case.set("vseed", 1 + rng.below(1 << 30) as i64);
        case.set("vstyle", rng.below(3) as i64);
        case.set("lcdc", (0x81 | (rng.byte() & 0x7e)) as i64);
        let edge = |rng: &mut Rng, list: &[u8]| -> i64 {
            if rng.chance(1, 2) {
                rng.pick(list) as i64
            } else {
                rng.byte() as i64
            }
        };
        case.set("scx", edge(rng, &[0, 1, 7, 8, 9, 255, 248, 100]));
        case.set("scy", edge(rng, &[0, 1, 7, 8, 112, 255, 248, 200]));
        case.set("wx", edge(rng, &[0, 1, 2, 3, 4, 5, 6, 7, 8, 9, 15, 87, 159, 165, 166, 167, 168, 255]));
        case.set("wy", edge(rng, &[0, 1, 7, 8, 72, 143, 144, 255]));
        // palettes: uniform, or (1 in 5 each) a corner value - all four shades equal, identity, reversed
        let pal = |rng: &mut Rng| if rng.chance(1, 5) { rng.pick(&[0x00u8, 0xff, 0xe4, 0x1b, 0x55, 0xaa]) } else { rng.byte() };
        case.set("bgp", pal(rng) as i64);
        case.set("obp0", pal(rng) as i64);
        case.set("obp1", pal(rng) as i64);
        // objects
        let count = rng.pick(&[0usize, 1, 2, 5, 10, 11, 12, 20, 40, 40]);
        let mut oam = vec![0u8; 0xa0];
        let cluster_y = rng.pick(&COORDS_Y);
        let cluster_x = rng.pick(&COORDS_X);
        let mode = rng.below(4);
        for n in 0..40 {
            if n >= count {
                oam[n * 4] = 0; // off-screen
                continue;
            }
            let (y, x) = match mode {
                0 => (rng.byte(), rng.byte()),
                1 => (cluster_y.wrapping_add(rng.below(4) as u8), rng.byte()), // many on one line
                2 => (cluster_y.wrapping_add(rng.below(3) as u8), cluster_x.wrapping_add(rng.below(3) as u8)), // ties / overlaps
                _ => (rng.pick(&COORDS_Y), rng.pick(&COORDS_X)),
            };
            oam[n * 4] = y;
            oam[n * 4 + 1] = x;
            oam[n * 4 + 2] = rng.byte();
            oam[n * 4 + 3] = rng.byte();
        }
        case.blobs.insert("oam".to_string(), oam);
        case.set("part", (index % 4) as i64);
        // half of the cases present a second frame with other inputs (set during the VBlank between the two): the buffer
        // published at the second VBlank event must be the second composition, not a stale or half-swapped one
        if rng.chance(1, 2) {
            case.set("vseed2", 1 + rng.below(1 << 30) as i64);
            case.set("scx2", rng.byte() as i64);
            case.set("scy2", rng.byte() as i64);
            case.set("bgp2", rng.byte() as i64);
            case.set("lcdc2", (0x81 | (rng.byte() & 0x7e)) as i64);
        }
        // drawn partition sizes (used when part == 3)
        let mut sizes: Vec<i64> = Vec::new();
        for _ in 0..64 {
            sizes.push(match rng.below(5) {
                0 => 4 * rng.range(1, 5),
                1 => 4 * rng.range(1, 60),
                2 => 4 * rng.range(20, 47), // cuts inside mode 3 (dots 80..268)
                3 => 456 - 4 * rng.range(0, 3),
                _ => 4 * rng.range(1, 2000),
            });
        }
        case.ops.push(crate::case::Op { k: "sizes", a: sizes });
    }

    fn run(&self, case: &Case, ctx: &mut Ctx) -> Vec<Violation> {
        let (vram, oam) = build_inputs(case);
        let lcdc = (case.get("lcdc") as u8) | 0x81;
        let regs: [(u16, u8); 8] = [
            (0xff40, lcdc),
            (0xff42, case.get("scy") as u8),
            (0xff43, case.get("scx") as u8),
            (0xff47, case.get("bgp") as u8),
            (0xff48, case.get("obp0") as u8),
            (0xff49, case.get("obp1") as u8),
            (0xff4a, case.get("wy") as u8),
            (0xff4b, case.get("wx") as u8),
        ];
        let sizes: Vec<u64> = case.ops.iter().find(|o| o.k == "sizes").map(|o| o.a.iter().map(|x| (x.clamp(&4, &(1 << 20)) & !3) as u64).collect()).unwrap_or_default();
        let part = case.get("part").clamp(0, 3);
        let pname = ["P4", "Pline", "Pframe", "Prand"][part as usize];
        let mut out = Vec::new();

        let run_one = |p: i64| -> Result<Vec<u8>, Violation> {
            let mut m = IntMachine::from_code(vec![0x18, 0xfe]);
            m.vram().copy_from_slice(&vram);
            m.oam().copy_from_slice(&oam);
            for (a, v) in regs {
                m.write(a, v);
            }
            let mut left = FRAME;
            let mut k = 0usize;
            while left > 0 {
                let n = match p {
                    0 => 4,
                    1 => 456,
                    2 => FRAME,
                    _ => {
                        let s = if sizes.is_empty() { 456 } else { sizes[k % sizes.len()] };
                        k += 1;
                        s
                    }
                }
                .min(left);
                // the VBlank request must not appear before the frame is complete
                m.clock(n as usize);
                left -= n;
                let f = m.read(0xff0f);
                if (f & 1 != 0) != (left == 0) {
                    return Err(Violation::new("C15", "C15/vblank-event-misplaced".to_string(), format!("partition {}: VBlank request = {} with {} clocks of the frame left", ["P4", "Pline", "Pframe", "Prand"][p as usize], f & 1, left)));
                }
            }
            Ok(m.visible_frame().to_vec())
        };

        let got = match std::panic::catch_unwind(std::panic::AssertUnwindSafe(|| run_one(part))) {
            Ok(Ok(f)) => f,
            Ok(Err(v)) => return vec![v],
            Err(_) => {
                let msg = crate::driver::take_panic();
                return vec![Violation::new("C15", format!("C15/panic/{}", crate::driver::panic_class(&msg)), format!("rendering panicked (LCDC {:#04x}, WX {}, WY {}, SCX {}): {}", lcdc, case.get("wx"), case.get("wy"), case.get("scx"), msg))];
            }
        };
        // reference (two admissible variants for 8x16 tile indices)
        let mk = |mask: bool| RenderIn { vram: &vram, oam: &oam, lcdc, scx: case.get("scx") as u8, scy: case.get("scy") as u8, wx: case.get("wx") as u8, wy: case.get("wy") as u8, bgp: case.get("bgp") as u8, obp0: case.get("obp0") as u8, obp1: case.get("obp1") as u8, mask_tall_index: mask };
        let (ref_a, layers) = render(&mk(false));
        let mut ok = got == ref_a;
        if !ok && lcdc & 4 != 0 {
            let (ref_b, _) = render(&mk(true));
            if got == ref_b {
                ok = true;
                ctx.cov.hit("spec_set_forks");
            }
        }
        if !ok {
            let i = (0..160 * 144).find(|&i| got[i] != ref_a[i]).unwrap();
            let (x, y) = (i % 160, i / 160);
            let lname = match layers[i] {
                Layer::Bg => "background",
                Layer::Window => "window",
                Layer::Obj => "object",
                Layer::BgOverObj => "background-over-object",
            };
            let bad = (0..160 * 144).filter(|&i| got[i] != ref_a[i]).count();
            out.push(Violation::new(
                "C15",
                format!("C15/pixel/{}", lname),
                format!("partition {}: first differing pixel ({}, {}): presented shade {}, reference {} ({} layer); {} pixels differ; LCDC {:#04x} SCX {} SCY {} WX {} WY {}", pname, x, y, got[i], ref_a[i], lname, bad, lcdc, case.get("scx"), case.get("scy"), case.get("wx"), case.get("wy")),
            ));
            return out;
        }
        // second frame with other inputs
        if case.get("vseed2") != 0 {
            let mut c2 = case.clone();
            c2.set("vseed", case.get("vseed2"));
            let (vram2, oam2) = build_inputs(&c2);
            let lcdc2 = (case.get("lcdc2") as u8) | 0x81;
            let regs2: [(u16, u8); 4] = [(0xff40, lcdc2), (0xff42, case.get("scy2") as u8), (0xff43, case.get("scx2") as u8), (0xff47, case.get("bgp2") as u8)];
            let two = std::panic::catch_unwind(std::panic::AssertUnwindSafe(|| -> Vec<u8> {
                let mut m = IntMachine::from_code(vec![0x18, 0xfe]);
                m.vram().copy_from_slice(&vram);
                m.oam().copy_from_slice(&oam);
                for (a, v) in regs {
                    m.write(a, v);
                }
                m.clock(FRAME as usize);
                // now in the VBlank that follows frame 1: change the inputs
                m.vram().copy_from_slice(&vram2);
                m.oam().copy_from_slice(&oam2);
                for (a, v) in regs2 {
                    m.write(a, v);
                }
                let mut left = FRAME;
                let mut k = 0usize;
                while left > 0 {
                    let n = match part {
                        0 => 4,
                        1 => 456,
                        2 => FRAME,
                        _ => {
                            let s = if sizes.is_empty() { 456 } else { sizes[k % sizes.len()] };
                            k += 1;
                            s
                        }
                    }
                    .min(left);
                    m.clock(n as usize);
                    left -= n;
                }
                m.visible_frame().to_vec()
            }));
            if let Ok(f2) = two {
                let mk2 = |mask: bool| RenderIn { vram: &vram2, oam: &oam2, lcdc: lcdc2, scx: case.get("scx2") as u8, scy: case.get("scy2") as u8, wx: case.get("wx") as u8, wy: case.get("wy") as u8, bgp: case.get("bgp2") as u8, obp0: case.get("obp0") as u8, obp1: case.get("obp1") as u8, mask_tall_index: mask };
                let (r2, _) = render(&mk2(false));
                let ok2 = f2 == r2 || (lcdc2 & 4 != 0 && f2 == render(&mk2(true)).0);
                if !ok2 {
                    let stale = f2 == got;
                    let i = (0..160 * 144).find(|&i| f2[i] != r2[i]).unwrap();
                    out.push(Violation::new("C15", if stale { "C15/second-frame/stale-buffer-presented".to_string() } else { "C15/second-frame/pixel".to_string() }, format!("partition {}: the frame presented at the second VBlank differs from the composition of the second inputs at ({}, {}){}", pname, i % 160, i / 160, if stale { " - it is still the first frame" } else { "" })));
                    return out;
                }
                ctx.cov.hit("probe.second_frames_compared");
            }
        }
        // batching independence: one other partition must present the same frame
        let other = (part + 1 + (case.index as i64 % 3)) % 4;
        if let Ok(Ok(f2)) = std::panic::catch_unwind(std::panic::AssertUnwindSafe(|| run_one(other))) {
            if f2 != got {
                let i = (0..160 * 144).find(|&i| got[i] != f2[i]).unwrap();
                out.push(Violation::new("C15", "C15/batching-dependent".to_string(), format!("partitions {} and {} present different frames (first at ({}, {}))", pname, ["P4", "Pline", "Pframe", "Prand"][other as usize], i % 160, i / 160)));
                return out;
            }
        }
        // probes
        let wx = case.get("wx");
        let wy = case.get("wy");
        let win_on = lcdc & 0x20 != 0 && wy < 144 && wx <= 166;
        if win_on {
            ctx.cov.hit(if wx < 7 { "probe.window_left_of_screen_edge" } else if wx == 7 { "probe.window_at_left_edge" } else { "probe.window_inside" });
        } else if lcdc & 0x20 != 0 {
            ctx.cov.hit("probe.window_enabled_but_off_screen");
        }
        if lcdc & 0x10 == 0 {
            ctx.cov.hit("probe.signed_tile_addressing");
        }
        if lcdc & 0x08 != 0 {
            ctx.cov.hit("probe.second_bg_map");
        }
        if lcdc & 0x04 != 0 && lcdc & 2 != 0 {
            ctx.cov.hit("probe.tall_objects");
        }
        let objpix = layers.iter().filter(|l| **l == Layer::Obj).count();
        let behind = layers.iter().filter(|l| **l == Layer::BgOverObj).count();
        if objpix > 0 {
            ctx.cov.hit("probe.frames_with_object_pixels");
        }
        if behind > 0 {
            ctx.cov.hit("probe.frames_with_bg_over_object");
        }
        // more than ten objects on some line?
        if lcdc & 2 != 0 {
            let h = if lcdc & 4 != 0 { 16 } else { 8 };
            for y in 0..144i32 {
                let n = (0..40).filter(|n| {
                    let r = y + 16 - oam[n * 4] as i32;
                    r >= 0 && r < h
                }).count();
                if n > 10 {
                    ctx.cov.hit("probe.frames_with_more_than_ten_objects_on_a_line");
                    break;
                }
            }
        }
        let wclass = if !win_on { 0 } else if wx < 7 { 1 } else if wx == 7 { 2 } else { 3 };
        ctx.cov.mark("distinct", ((lcdc & 0x7e) as u64) << 24 | wclass << 20 | ((case.get("scx") & 7) as u64) << 16 | ((objpix > 0) as u64) << 8 | part as u64);
        ctx.cov.add("sim_clocks", FRAME * 2);
        out
    }
}
