//! C09 — emulated time is conserved. Replica A takes every step through the
//! real step function (instruction-stepped, block-stepped or mixed; jit or
//! non-jit build). Twin T performs the same step by hand in the order the
//! statement prescribes: engine only, read the machine cycles it reports,
//! deliver 4 x cycles to the devices, then sample interrupts. Independently,
//! the LCD position (and the timer's hidden divider) of A must equal the sum
//! of reported cycles; run_frame() must return within two frame periods + one block.

use super::{Ctx, Info, Scenario, Violation};
use crate::case::Case;
use crate::machine::{Machine, HALT, IME_OFF, IME_ON, IME_PENDING, RUN, STOP};
use crate::prng::Rng;
use crate::proggen::generate_program;
use crate::setup::replicas;

pub struct TimeConservation;

const FRAME: u64 = 70224;

/// LCD position within the frame (clocks since the start of line 0)
fn lcd_frame_pos(m: &dyn Machine) -> u64 {
    let (mode, dots, line) = m.lcd_pos();
    let base = line as u64 * 456;
    let off = match mode {
        2 => 0,
        3 => 80,
        0 => 268,
        _ => 0,
    };
    (base + off + dots as u64) % FRAME
}

thread_local! {
    /// cycles the implementation charged for the last dispatch when that was not 5 (-1: nothing to report)
    static DISPATCH_CHARGE: std::cell::Cell<i64> = std::cell::Cell::new(-1);
}

/// one step of the twin, composed by hand; returns machine cycles delivered
fn twin_step(t: &mut dyn Machine, block: bool, jit: bool) -> Result<u64, String> {
    let r = std::panic::catch_unwind(std::panic::AssertUnwindSafe(|| {
        if t.run_state() != RUN {
            // one machine cycle passes while the CPU is suspended
            t.clock(4);
            let ime_before = t.ime();
            let before = t.regs().cycles;
            t.handle_interrupt();
            if ime_before == IME_ON && t.ime() == IME_OFF {
                let mut r = t.regs();
                if r.cycles != before + 5 {
                    DISPATCH_CHARGE.with(|c| c.set(r.cycles as i64 - before as i64));
                    r.cycles = before + 5;
                    t.set_regs(r);
                }
            }
            return 1u64;
        }
        // machine cycles charged earlier but not yet delivered (the 5 of a dispatch): kept by the twin itself, so that it does not
        // matter how an engine treats the counter it finds on entry
        let mut r0 = t.regs();
        let pending = r0.cycles as u64;
        r0.cycles = 0;
        t.set_regs(r0);
        let status = if block {
            let pc = t.regs().ip;
            if jit && pc < 0x8000 {
                t.engine_jit_block()
            } else {
                t.engine_interp_block()
            }
        } else {
            let (s, _) = t.engine_interp_op().expect("end of executable section");
            if t.ime() == IME_PENDING {
                t.set_ime(IME_ON);
            }
            s
        };
        match status {
            1 => t.set_run_state(STOP),
            2 => t.set_run_state(HALT),
            3 => t.set_ime(IME_OFF),
            4 => {
                if block {
                    t.set_ime(IME_ON);
                } else if t.ime() == IME_OFF {
                    t.set_ime(IME_PENDING);
                }
            }
            5 => t.set_ime(IME_ON),
            _ => {}
        }
        let mut regs = t.regs();
        let cycles = pending + regs.cycles as u64;
        regs.cycles = 0;
        t.set_regs(regs);
        // the twin's devices advance one machine cycle at a time: the replica under test must match however it batches
        for _ in 0..cycles {
            t.clock(4);
        }
        let ime_before = t.ime();
        t.handle_interrupt();
        if ime_before == IME_ON && t.ime() == IME_OFF {
            // a dispatch took place: it costs five machine cycles, delivered with the next step
            let mut r = t.regs();
            if r.cycles != 5 {
                DISPATCH_CHARGE.with(|c| c.set(r.cycles as i64));
                r.cycles = 5;
                t.set_regs(r);
            }
        }
        cycles
    }));
    match r {
        Ok(c) => Ok(c),
        Err(_) => Err(crate::driver::panic_class(&crate::driver::take_panic())),
    }
}

fn real_step(a: &mut dyn Machine, block: bool, jit: bool) -> Result<(), String> {
    let r = std::panic::catch_unwind(std::panic::AssertUnwindSafe(|| {
        if a.run_state() != RUN {
            a.update();
        } else if block {
            a.run_code_block();
        } else if jit {
            a.run_interp();
        } else {
            a.update(); // non-jit build: update() is the instruction step
        }
    }));
    match r {
        Ok(()) => Ok(()),
        Err(_) => Err(crate::driver::panic_class(&crate::driver::take_panic())),
    }
}

/// smallest e >= 0 with e = dl (mod 70224) and e = dt (mod 65536), if consistent
fn crt(dl: u64, dt: u64) -> Option<u64> {
    // gcd = 16
    if dl % 16 != dt % 16 {
        return None;
    }
    let mut e = dl;
    for _ in 0..4096 {
        if e % 65536 == dt {
            return Some(e);
        }
        e += FRAME;
    }
    None
}

impl Scenario for TimeConservation {
    fn name(&self) -> &'static str {
        "time_conservation"
    }
    fn quick_runs(&self, _f: &str) -> u64 {
        6400
    }
    fn chunk(&self) -> u64 {
        50
    }
    fn death_property(&self, _f: &str) -> Option<&'static str> {
        Some("C09")
    }
    fn info(&self) -> Info {
        Info {
            rule: "one case = one generated program (timer and STAT interrupts, HALT waits, OAM DMA, RAM-resident code, far calls) + a stepping mode (instruction-stepped, block-stepped, or drawn per step) + build (jit / non-jit) + joypad/IF events and cache flushes; replica A steps through Core::update/run_interp/run_code_block, twin T performs each step by hand as the statement prescribes (engine alone -> machine cycles it reports, incl. 5 left by a previous dispatch -> 4 x cycles to MemoryAreas::run_clock_cycles -> handle_interrupt; a suspended CPU = one machine cycle); A and T must have identical full state after every step; independently A's LCD position and (when the program never writes DIV) hidden 16-bit divider must equal start + 4 x the sum of reported machine cycles; every step advances time; finally run_frame() is called on A under a watchdog and the time it consumed (CRT of LCD position and divider) must be <= 2 x 70224 clocks + one block. distinct_nontrivial = distinct (program hash, mode, steps) runs with at least one dispatch and one suspended step",
            components_real: &["Core::update / run_interp / run_code_block / run_frame / handle_interrupt (both builds)", "Registers::get_consumed_cycles, timing::MachineCycles::to_clock_cycles", "MemoryAreas::run_clock_cycles -> IO::run_clock_cycles -> Timer/VideoState/DMA"],
            components_stub: &["twin T re-composes the step from the same engines and device code (so an error inside a device's own clocking is C13/C14/C16's subject, not visible here except through the closed-form LCD/divider check)", "host event loop replaced by the simulator's schedule"],
            assumptions: &["the status -> master-enable/run-state mapping of the twin follows Core (EI immediate in block mode, delayed in instruction mode)", "run_frame bound uses the longest block observed in the run + 64 machine cycles as 'one block'", "run_frame elapsed time is measured only for programs that never write DIV"],
            fault_kinds: &["step (instruction / block / mixed stepping; jit on/off)", "joy", "irq", "flush"],
        }
    }

    fn generate(&self, rng: &mut Rng, index: u64, thorough: bool, case: &mut Case) {
        if index % 40 == 39 {
            // a step of tens of thousands of machine cycles: the upper ROM half filled with one one-byte instruction, entered at
            // its start with the timer running (catch-up batches beyond 65536 clocks)
            case.set("cart_type", 0);
            case.set("rom_code", 0);
            case.set("ram_code", 3);
            case.set("ramfill", 1 + rng.below(1 << 30) as i64);
            case.set("no_div_writes", 1);
            case.set("jit", rng.below(2) as i64);
            case.set("mode", 1);
            let op = rng.pick(&[0x00u8, 0x04, 0x34, 0x00]);
            let n = rng.pick(&[0x3ffdusize, 0x3000, 0x2000]);
            let mut code = vec![op; n];
            code.extend([0xc3, 0x50, 0x01]);
            case.blobs.insert(crate::cart::patch_key(0x8000 - code.len()), code.clone());
            let start = 0x8000 - code.len();
            // entry: timer on, HL in work RAM, jump into the giant block
            case.blobs.insert(crate::cart::patch_key(0x150), vec![0x31, 0xf0, 0xdf, 0x21, 0x00, 0xc1, 0x3e, rng.pick(&[5u8, 6, 7, 4]), 0xe0, 0x07, 0x3e, 0x04, 0xe0, 0xff, 0xc3, start as u8, (start >> 8) as u8]);
            case.push("s", &[rng.range(4, 12)]);
            case.push("frame", &[]);
            return;
        }
        let _p = generate_program(rng, case, thorough);
        case.set("jit", rng.below(2) as i64);
        case.set("mode", rng.below(3) as i64);
        case.set("mixseed", rng.next() as i64 & 0x7fff_ffff);
        let total = if thorough { rng.range(100, 4000) } else { rng.range(50, 1200) };
        let mut left = total;
        while left > 0 {
            let n = rng.range(1, 150).min(left);
            case.push("s", &[n]);
            left -= n;
            match rng.below(10) {
                0 | 1 => case.push("j", &[rng.below(8) as i64, 1]),
                2 => case.push("j", &[rng.below(8) as i64, 0]),
                3 => case.push("f", &[]),
                4 => case.push("q", &[1 << rng.below(5)]),
                _ => {}
            }
        }
        // a dispatch whose pushes land on IE / IF (possibly cancelling itself) must still cost its five cycles
        if rng.chance(1, 6) {
            case.push("w", &[0xffff, rng.pick(&[0x1fi64, 0x04, 0x01, 0x10])]);
            case.push("ime", &[1]);
            case.push("setsp", &[rng.pick(&[0x0000i64, 0xff10, 0x0001, 0xff11, 0xc100])]);
            case.push("q", &[rng.pick(&[0x01i64, 0x04, 0x10, 0x1f])]);
            case.push("s", &[rng.range(1, 4)]);
        }
        // states from which stepping to the next frame must still terminate
        match rng.below(6) {
            0 => case.push("w", &[0xff40, rng.pick(&[0x00i64, 0x11, 0x7f])]),
            1 => {
                case.push("w", &[0xffff, 0]);
                case.push("halt", &[1]);
            }
            2 => case.push("halt", &[2]),
            _ => {}
        }
        case.push("frame", &[]);
    }

    fn run(&self, case: &Case, ctx: &mut Ctx) -> Vec<Violation> {
        let jit = case.get("jit") != 0;
        let mode = case.get("mode");
        let (_img, mut reps) = match replicas(case, &[jit, jit]) {
            Ok(x) => x,
            Err(_) => return vec![],
        };
        let (x, y) = reps.split_at_mut(1);
        let a = x[0].as_mut();
        let t = y[0].as_mut();
        let mode_name = ["instruction", "block", "mixed"][mode.clamp(0, 2) as usize];
        let build = if jit { "jit" } else { "nonjit" };
        let mut out = Vec::new();
        let mut mix = case.get("mixseed") as u64 | 1;
        let mut no_div = case.get("no_div_writes") != 0;
        let lcd0 = lcd_frame_pos(a);
        let tim0 = a.timer_phase() as u64;
        let mut sum_cycles: u64 = 0;
        let mut steps = 0u64;
        let mut max_block = 0u64;
        let mut dispatches = 0u64;
        let mut suspended = 0u64;
        let mut lockstep = true;
        let _ = crate::capture::take();
        'ops: for (opi, op) in case.ops.iter().enumerate() {
            match op.k {
                "w" => {
                    let (ad, v) = (op.arg(0) as u16, op.arg(1) as u8);
                    a.write(ad, v);
                    t.write(ad, v);
                }
                "ime" => {
                    let v = if op.arg(0) != 0 { IME_ON } else { IME_OFF };
                    a.set_ime(v);
                    t.set_ime(v);
                }
                "setsp" => {
                    for m in [&mut *a, &mut *t] {
                        let mut r = m.regs();
                        r.sp = (op.arg(0) & 0xffff) as u32;
                        m.set_regs(r);
                    }
                }
                "halt" => {
                    let s = if op.arg(0) == 2 { STOP } else { HALT };
                    a.set_run_state(s);
                    t.set_run_state(s);
                }
                "j" => {
                    for m in [&mut *a, &mut *t] {
                        if op.arg(1) != 0 {
                            m.press(op.arg(0) as u8);
                        } else {
                            m.release(op.arg(0) as u8);
                        }
                    }
                    ctx.cov.hit("fault.joy_events");
                }
                "q" => {
                    for m in [&mut *a, &mut *t] {
                        let f = m.iflag();
                        m.set_iflag(f | (op.arg(0) & 0x1f) as u8);
                    }
                    ctx.cov.hit("fault.irq_pokes");
                }
                "f" => {
                    a.flush_cache();
                    ctx.cov.hit("fault.flush");
                }
                "s" => {
                    if !lockstep {
                        continue;
                    }
                    for _ in 0..op.arg(0).clamp(0, 10000) {
                        steps += 1;
                        let block = match mode {
                            0 => false,
                            1 => true,
                            _ => {
                                mix ^= mix << 13;
                                mix ^= mix >> 7;
                                mix ^= mix << 17;
                                mix & 1 == 1
                            }
                        };
                        let pre = a.regs();
                        let pre_state = a.run_state();
                        a.trace_start();
                        let ra = real_step(a, block, jit);
                        // a write to DIV (by the program, a stray push, a DMA...) restarts the divider: the closed form for it ends here
                        if no_div && a.trace_take().iter().any(|e| e.0 == 1 && e.1 == 0xff04) {
                            no_div = false;
                            ctx.cov.hit("divider_closed_form_ended_by_div_write");
                        }
                        let rt = twin_step(t, block, jit);
                        let _ = crate::capture::take();
                        match (&ra, &rt) {
                            (Err(_), Err(_)) => {
                                ctx.cov.hit("both_panicked_alike");
                                lockstep = false;
                                break 'ops;
                            }
                            (Err(e), Ok(_)) | (Ok(_), Err(e)) => {
                                out.push(Violation::new("C09", format!("C09/only-one-side-panicked/{}", if ra.is_err() { "real-step" } else { "twin" }), format!("op {} step {} (pc {:#06x}): {}", opi, steps, pre.ip, e)));
                                break 'ops;
                            }
                            _ => {}
                        }
                        let charged = DISPATCH_CHARGE.with(|c| c.replace(-1));
                        if charged >= 0 {
                            out.push(Violation::new("C09", format!("C09/dispatch-charge/{}", build), format!("op {} step {} (pc {:#06x}): an interrupt dispatch charged {} machine cycles instead of 5", opi, steps, pre.ip, charged)));
                            break 'ops;
                        }
                        let cycles = *rt.as_ref().unwrap();
                        if cycles < 1 {
                            out.push(Violation::new("C09", format!("C09/step-without-time/{}/{}", mode_name, build), format!("op {} step {} (pc {:#06x}, run state {}): the step consumed {} machine cycles", opi, steps, pre.ip, pre_state, cycles)));
                            break 'ops;
                        }
                        sum_cycles += cycles;
                        max_block = max_block.max(cycles);
                        if cycles >= 16384 {
                            ctx.cov.hit("probe.steps_of_65536_clocks_or_more");
                        }
                        if pre_state != RUN {
                            suspended += 1;
                        }
                        let sa = a.snap(true);
                        let st = t.snap(true);
                        // last_block_cycle_length is only maintained by run_code_block
                        if let Some(field) = sa.diff_field(&st, &["last_block_cycles"]) {
                            out.push(Violation::new(
                                "C09",
                                format!("C09/twin-diverged/{}/{}/{}", field, if pre_state != RUN { "suspended" } else if block { "block" } else { "instruction" }, build),
                                format!("op {} step {} ({} step at pc {:#06x}, run state {}; the engine reported {} machine cycles): real step vs spec-composed twin: {}", opi, steps, if block { "block" } else { "instruction" }, pre.ip, pre_state, cycles, sa.diff(&st, &["last_block_cycles"]).unwrap()),
                            ));
                            break 'ops;
                        }
                        if block && pre_state == RUN && sa.get("last_block_cycles") != cycles {
                            out.push(Violation::new("C09", format!("C09/last-block-length/{}", build), format!("op {} step {}: last_block_cycle_length = {}, engine reported {}", opi, steps, sa.get("last_block_cycles"), cycles)));
                            break 'ops;
                        }
                        let post = a.regs();
                        if post.sp == pre.sp.wrapping_sub(2) && matches!(post.ip, 0x40 | 0x48 | 0x50 | 0x58 | 0x60) && post.cycles == 5 {
                            dispatches += 1;
                        }
                        // closed form: devices have seen exactly 4 x sum of reported cycles
                        let want_lcd = (lcd0 + 4 * sum_cycles) % FRAME;
                        let got_lcd = lcd_frame_pos(a);
                        if got_lcd != want_lcd {
                            out.push(Violation::new("C09", format!("C09/lcd-clock-drift/{}/{}", mode_name, build), format!("op {} step {}: LCD is at frame position {}, 4 x reported machine cycles ({}) since the start puts it at {}", opi, steps, got_lcd, sum_cycles, want_lcd)));
                            break 'ops;
                        }
                        if no_div {
                            let want_t = (tim0 + 4 * sum_cycles) % 65536;
                            let got_t = a.timer_phase() as u64;
                            if got_t != want_t {
                                out.push(Violation::new("C09", format!("C09/timer-clock-drift/{}/{}", mode_name, build), format!("op {} step {}: hidden divider = {:#06x}, 4 x reported machine cycles puts it at {:#06x}", opi, steps, got_t, want_t)));
                                break 'ops;
                            }
                        }
                    }
                }
                "frame" => {
                    let l0 = lcd_frame_pos(a);
                    let t0 = a.timer_phase() as u64;
                    unsafe { libc::alarm(20) };
                    a.trace_start();
                    let r = std::panic::catch_unwind(std::panic::AssertUnwindSafe(|| a.run_frame()));
                    unsafe { libc::alarm(0) };
                    // a DIV write while the frame ran (a derailed program's stack walking through the I/O page) restarts the
                    // divider: the elapsed time cannot be recovered from it then
                    if a.trace_take().iter().any(|e| e.0 == 1 && e.1 == 0xff04) {
                        no_div = false;
                        ctx.cov.hit("divider_closed_form_ended_by_div_write");
                    }
                    let _ = crate::capture::take();
                    lockstep = false;
                    if r.is_err() {
                        let _ = crate::driver::take_panic();
                        ctx.cov.hit("run_frame_panicked_out_of_scope");
                        continue;
                    }
                    ctx.cov.hit("probe.run_frame_returned");
                    if no_div {
                        let dl = (lcd_frame_pos(a) + FRAME - l0) % FRAME;
                        let dt = (a.timer_phase() as u64 + 65536 - t0) % 65536;
                        match crt(dl, dt) {
                            Some(e) => {
                                let bound = 2 * FRAME + 4 * (max_block.max(a.last_block_cycles() as u64) + 64);
                                ctx.cov.add("sim_clocks", e);
                                ctx.cov.mark("run_frame_elapsed_lines", e / 456);
                                if e > bound {
                                    out.push(Violation::new("C09", format!("C09/run-frame-too-long/{}", build), format!("op {}: run_frame consumed {} clocks of emulated time (> 2 x 70224 + one block = {})", opi, e, bound)));
                                    break 'ops;
                                }
                                if e == 0 {
                                    out.push(Violation::new("C09", format!("C09/run-frame-no-time/{}", build), format!("op {}: run_frame returned without consuming emulated time", opi)));
                                    break 'ops;
                                }
                                ctx.cov.hit("probe.run_frame_time_measured");
                            }
                            None => {
                                out.push(Violation::new("C09", format!("C09/device-clocks-inconsistent/{}", build), format!("op {}: after run_frame LCD advanced {} (mod 70224) and the divider {} (mod 65536): not the same elapsed time", opi, dl, dt)));
                                break 'ops;
                            }
                        }
                    }
                }
                _ => {}
            }
        }
        ctx.cov.add("steps", steps);
        ctx.cov.add("sim_clocks", 4 * sum_cycles * 2);
        ctx.cov.add("probe.dispatches_with_5_cycles_pending", dispatches);
        ctx.cov.add("probe.suspended_steps", suspended);
        ctx.cov.hit(&format!("mode.{}.{}", mode_name, build));
        if dispatches > 0 && suspended > 0 {
            ctx.cov.mark("distinct", crate::prng::hash_bytes(case.blob(&crate::cart::patch_key(0x150))) ^ (mode as u64) << 60 ^ steps);
        }
        out
    }
}
