//! C11 — no guest-controlled bus access crashes the emulator. Fault = process
//! death (abort from a panic in an extern "sysv64" helper, SIGSEGV, SIGBUS) or
//! an unwinding panic, observed per case in worker subprocesses.

use super::{Ctx, Info, Scenario, Violation};
use crate::cart::{patch_key, CART_TYPES, RAM_CODES, ROM_CODES};
use crate::case::Case;
use crate::machine::Regs;
use crate::prng::Rng;
use crate::setup::replicas;
use crate::sm83;

pub struct BusCrash;

const VALUES: [u8; 15] = [0x00, 0x01, 0x1f, 0x20, 0x3f, 0x40, 0x60, 0x7f, 0x80, 0xff, 0x03, 0x04, 0x08, 0x0a, 0x0c];
const WORD_EDGES: [u16; 12] = [0xffff, 0x7fff, 0xbfff, 0x3fff, 0x9fff, 0xdfff, 0xfdff, 0xfe9f, 0xfeff, 0xff7f, 0xa7ff, 0xa800];

fn region(a: u16) -> u64 {
    match a {
        0x0000..=0x3fff => 0,
        0x4000..=0x7fff => 1,
        0x8000..=0x9fff => 2,
        0xa000..=0xbfff => 3,
        0xc000..=0xdfff => 4,
        0xe000..=0xfdff => 5,
        0xfe00..=0xfeff => 6,
        0xff00..=0xff7f => 7,
        _ => 8,
    }
}

fn rng_objects(r: &mut Rng) -> u64 {
    r.pick(&[1u64, 4, 12, 40])
}

impl Scenario for BusCrash {
    fn name(&self) -> &'static str {
        "bus_crash"
    }
    fn quick_runs(&self, _f: &str) -> u64 {
        504 * 400
    }
    fn chunk(&self) -> u64 {
        504 * 4
    }
    fn death_property(&self, _f: &str) -> Option<&'static str> {
        Some("C11")
    }
    fn info(&self) -> Info {
        Info {
            rule: "one case = one header configuration (run index walks all 7 supported types x 12 ROM-size codes x 6 RAM-size codes = 504 round-robin) built by read_header + Core::from_rom_file, a seeded history of 0..8 bank-register writes, (in the first two passes over the configurations: a sweep of all 65536 addresses with byte reads, word reads and - outside the register window - byte and word writes), then 1..12 accesses (byte/word read/write at boundary-biased addresses incl. word accesses at 0xFFFF/0x7FFF/0xBFFF, fetch view, and a PUSH/POP/LD (a16),SP/LD A,(a16) program run by both engines with SP at 0x0000/0x0001/0xFFFF...). A case fails if the worker process dies or any access panics. distinct_nontrivial = distinct (type, ROM code, RAM code, bank-state class, region, access kind)",
            components_real: &["mem::memory_read_byte/_write_byte/_read_word/_write_word/memory_push_word, get_executable_memory_slice", "cart::* bank state, Header sizing, MemoryAreas::with_rom_file (buffers sized from the header)", "translated code and interpreter for the stack/word-access program"],
            components_stub: &["devices idle"],
            assumptions: &["built with overflow-checks and debug-assertions on", "the cartridge file is as large as the header declares (shorter files are C19's subject)", "instruction fetch from non-executable regions (VRAM, cartridge RAM, OAM, I/O) is not a bus read/write and is not exercised"],
            fault_kinds: &["process death / panic observed per access", "bank (register histories incl. out-of-range selections)"],
        }
    }

    fn generate(&self, rng: &mut Rng, index: u64, _thorough: bool, case: &mut Case) {
        let cfg = (index % 504) as usize;
        case.set("cart_type", CART_TYPES[cfg % 7] as i64);
        case.set("rom_code", ROM_CODES[(cfg / 7) % 12] as i64);
        case.set("ram_code", RAM_CODES[cfg / 84] as i64);
        case.set("rom_fill", 0);
        let nw = rng.below(9);
        let banks = crate::cart::rom_banks(ROM_CODES[(cfg / 7) % 12]);
        for _ in 0..nw {
            let addr = rng.pick(&[0x0000u16, 0x2000, 0x3fff, 0x4000, 0x5fff, 0x6000, 0x7fff, 0x2100]);
            let v = match rng.below(8) {
                // the cartridge's own last banks (and just beyond), as 7-bit, 5-bit and upper-bits register values
                0 => (((banks - 1).saturating_sub(rng.below(6) as usize)) & 0x7f) as u8,
                1 => (((banks - 1).saturating_sub(rng.below(6) as usize)) & 0x1f) as u8,
                2 => (((banks - 1) >> 5) & 3) as u8,
                3 => rng.byte(),
                _ => rng.pick(&VALUES),
            };
            case.push("w", &[addr as i64, v as i64]);
        }
        // the first two passes over the 504 configurations also sweep the whole address space after the register history
        if index < 1008 {
            case.push("sweep", &[]);
        }
        let na = rng.range(1, 12);
        for _ in 0..na {
            let addr = match rng.below(5) {
                0 => rng.pick(&WORD_EDGES),
                1 | 2 => sm83::pointer(rng, false),
                3 => 0xa000 + rng.below(0x2000) as u16,
                _ => rng.word(),
            };
            match rng.below(8) {
                0 | 1 => case.push("r", &[addr as i64]),
                2 => case.push("wr", &[addr as i64, rng.byte() as i64]),
                3 => case.push("rw", &[addr as i64]),
                4 => case.push("ww", &[addr as i64, rng.word() as i64]),
                5 => case.push("fv", &[(addr & 0x7fff) as i64]),
                _ => {
                    let sp = rng.pick(&[0x0000u16, 0x0001, 0x0002, 0xffff, 0xfffe, 0x8000, 0xa000, 0xa001, 0xc000, 0xfe00, 0xff00, 0xff80, addr]);
                    case.push("blk", &[sp as i64, addr as i64, rng.below(2) as i64]);
                }
            }
        }
        // interrupt dispatches whose pushes land on IE / IF / ROM registers / the 16-bit wrap (and may cancel the dispatch), and
        // code that stops short of an instruction cut off by the end of its region (the block ends in front of it; an interrupt
        // is taken there, so execution never arrives at it)
        for _ in 0..rng.below(3) {
            if rng.chance(1, 2) {
                let sp = rng.pick(&[0x0000u16, 0x0001, 0x0002, 0xff10, 0xff11, 0xffff, 0x2001, 0x4001, 0xa001, 0xfea1]);
                let pc = rng.pick(&[0x0150u16, 0x0000, 0x1f00, 0x00ff, 0xe0e0, 0xffff, 0x0a0a]);
                case.push("irq", &[sp as i64, rng.pick(&[0x01i64, 0x04, 0x1f, 0x10, 0x0a]), rng.pick(&[0x01i64, 0x04, 0x1f, 0x10, 0x0a]), pc as i64, rng.below(3) as i64]);
            } else {
                case.push("edge", &[rng.below(4) as i64, rng.below(3) as i64]);
            }
        }
        // the devices catch up over guest-written OAM / VRAM / registers: a frame of LCD time with objects at the screen edges
        if rng.chance(1, 3) {
            case.push("clk", &[(0x80 | rng.byte()) as i64, rng.next() as i64 & 0x7fff_ffff]);
        }
        // bank 0 ends with NOP; NOP; LD BC,d16 whose second operand byte would lie in the switchable bank
        case.blobs.insert(patch_key(0x3ffc), vec![0x00, 0x00, 0x01, 0x12]);
        // program for "blk" (SP and HL come from the registers): PUSH BC; POP DE; LD (0xFFFF),SP; LD (0x7FFF),SP; LD (0xBFFF),SP;
        // LD A,(HL); LD (HL),A; INC (HL); BIT 0,(HL); LD A,(HL+); LD A,(HL-); PUSH AF; POP AF; HALT
        case.blobs.insert(patch_key(0x0150), vec![0xc5, 0xd1, 0x08, 0xff, 0xff, 0x08, 0xff, 0x7f, 0x08, 0xff, 0xbf, 0x7e, 0x77, 0x34, 0xcb, 0x46, 0x2a, 0x3a, 0xf5, 0xf1, 0x76]);
    }

    fn run(&self, case: &Case, ctx: &mut Ctx) -> Vec<Violation> {
        let (_img, mut reps) = match replicas(case, &[true]) {
            Ok(x) => x,
            Err(_) => return vec![],
        };
        let m = reps[0].as_mut();
        let cfg = (case.get("cart_type") as u64) << 32 | (case.get("rom_code") as u64) << 16 | (case.get("ram_code") as u64) << 8;
        ctx.cov.mark("configs", cfg);
        let mut bank_class = 0u64;
        for (opi, op) in case.ops.iter().enumerate() {
            let addr = op.arg(0) as u16;
            let kind: u64 = match op.k {
                "w" => 0,
                "r" => 1,
                "wr" => 2,
                "rw" => 3,
                "ww" => 4,
                "fv" => 5,
                "blk" => 6,
                "sweep" => 7,
                "irq" => 6,
                "edge" => 6,
                "clk" => 7,
                _ => continue,
            };
            let r = std::panic::catch_unwind(std::panic::AssertUnwindSafe(|| match op.k {
                "w" => m.write(addr & 0x7fff, op.arg(1) as u8),
                "r" => {
                    let _ = m.read(addr);
                }
                "wr" => m.write(addr, op.arg(1) as u8),
                "rw" => {
                    let _ = m.read_word(addr);
                }
                "ww" => m.write_word(addr, op.arg(1) as u16),
                "fv" => {
                    let _ = m.fetch_view((addr & 0x7fff) as usize, 4);
                }
                "sweep" => {
                    // every address: byte read, word read, fetch view (ROM), then byte and word writes everywhere outside the
                    // cartridge-register window (writes there would change the state being swept)
                    for a in 0..=0xffffu16 {
                        let _ = m.read(a);
                        let _ = m.read_word(a);
                        if a < 0x8000 && a & 0xff == 0 {
                            let _ = m.fetch_view(a as usize, 4);
                        }
                    }
                    for a in 0x8000..=0xffffu16 {
                        if a == 0xff46 || a == 0xff02 {
                            continue;
                        }
                        m.write(a, a as u8);
                        if a != 0xff45 && a != 0xff01 {
                            m.write_word(a, 0x5aa5);
                        }
                    }
                }
                "irq" => {
                    m.set_ie(op.arg(1) as u8);
                    m.set_iflag(op.arg(2) as u8);
                    m.set_ime(crate::machine::IME_ON);
                    m.set_regs(Regs { af: 0, bc: 0, de: 0, hl: 0, sp: addr as u32, ip: (op.arg(3) & 0xffff) as u32, cycles: 0 });
                    match op.arg(4) {
                        0 => m.handle_interrupt(),
                        1 => {
                            // a halted CPU woken by the request
                            m.set_run_state(crate::machine::HALT);
                            m.update();
                        }
                        _ => {
                            m.set_run_state(crate::machine::STOP);
                            m.update();
                        }
                    }
                    m.set_run_state(crate::machine::RUN);
                }
                "clk" => {
                    let mut r = Rng::new(op.arg(1) as u64);
                    for e in 0..rng_objects(&mut r) {
                        let y = r.pick(&[0u8, 1, 8, 15, 16, 17, 80, 152, 159, 160, 255]);
                        let x = r.pick(&[0u8, 1, 7, 8, 9, 159, 160, 161, 166, 167, 168, 169, 255]);
                        let base = 0xfe00 + 4 * ((e * 7) % 40) as u16;
                        m.write(base, y);
                        m.write(base + 1, x);
                        m.write(base + 2, r.byte());
                        m.write(base + 3, r.byte());
                    }
                    for reg in [0xff42u16, 0xff43, 0xff4a, 0xff4b, 0xff47, 0xff48, 0xff49] {
                        m.write(reg, r.pick(&[0u8, 1, 7, 8, 143, 144, 159, 160, 166, 167, 255]));
                    }
                    m.write(0xff40, addr as u8 | 0x80);
                    m.clock(2 * 70224);
                }
                "edge" => {
                    // NOP; NOP; first two bytes of a three-byte instruction at the very end of a region
                    let start: u16 = [0x3ffcu16, 0xcffc, 0xdffc, 0xfffb][(op.arg(0) & 3) as usize];
                    if start >= 0x8000 {
                        for (k, b) in [0x00u8, 0x00, 0x01, 0x12].iter().enumerate() {
                            m.write(start + k as u16, *b);
                        }
                    }
                    m.set_ie(0x01);
                    m.set_iflag(0x01);
                    m.set_ime(crate::machine::IME_ON);
                    m.set_run_state(crate::machine::RUN);
                    m.set_regs(Regs { af: 0, bc: 0, de: 0, hl: 0, sp: 0xdfe0, ip: start as u32, cycles: 0 });
                    match op.arg(1) {
                        0 => m.run_code_block(),
                        1 => {
                            // translator / interpreter alone: the block must end in front of the cut-off instruction
                            if start < 0x8000 {
                                m.engine_jit_block();
                            } else {
                                m.engine_interp_block();
                            }
                        }
                        _ => {
                            m.engine_interp_block();
                        }
                    }
                }
                "blk" => {
                    let a16 = op.arg(1) as u16;
                    for jit in [op.arg(2) != 0, op.arg(2) == 0] {
                        m.set_regs(Regs { af: 0x1200, bc: 0x3456, de: 0, hl: a16 as u32, sp: addr as u32, ip: 0x0150, cycles: 0 });
                        if jit {
                            m.engine_jit_block();
                        } else {
                            m.engine_interp_block();
                        }
                    }
                }
                _ => {}
            }));
            if r.is_err() {
                let msg = crate::driver::take_panic();
                return vec![Violation::new("C11", format!("C11/panic/{}/{}", op.k, crate::driver::panic_class(&msg)), format!("op {} {:?} panicked: {}", opi, op, msg))];
            }
            if op.k == "w" {
                bank_class = (m.rom_bank() as u64 >= crate::cart::rom_banks(case.get("rom_code") as u8) as u64) as u64 | ((m.ram_bank() > 0) as u64) << 1;
            }
            ctx.cov.mark("distinct", cfg | bank_class << 6 | region(addr) << 3 | kind);
            ctx.cov.hit(match op.k {
                "rw" | "ww" if addr == 0xffff => "probe.word_access_at_ffff",
                "blk" => "probe.stack_programs",
                "irq" => "probe.dispatches_with_the_stack_on_registers",
                "clk" => "probe.lcd_frames_over_guest_written_state",
                "edge" => "probe.blocks_ending_in_front_of_a_cut_off_instruction",
                "sweep" => "probe.full_address_space_sweeps",
                _ => "accesses",
            });
        }
        vec![]
    }
}
