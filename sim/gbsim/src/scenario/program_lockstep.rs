//! C04 — recompiler on/off gives the same program behaviour. Replica J (jit
//! build) and replica N (non-jit build) run the same generated multi-block
//! program block by block; full state digests, frame buffers and the bytes
//! written to fd 1 are compared after every step.

use super::{Ctx, Info, Scenario, Violation};
use crate::case::Case;
use crate::machine::{Machine, RUN};
use crate::prng::Rng;
use crate::proggen::generate_program;
use crate::setup::replicas;

pub struct ProgramLockstep;

pub fn block_step(m: &mut dyn Machine) -> Result<(), String> {
    let r = std::panic::catch_unwind(std::panic::AssertUnwindSafe(|| {
        if m.run_state() == RUN {
            m.run_code_block();
        } else {
            m.update();
        }
    }));
    match r {
        Ok(()) => Ok(()),
        Err(_) => Err(crate::driver::panic_class(&crate::driver::take_panic())),
    }
}

fn msg_of(s: &str) -> String {
    s.split(" @ ").next().unwrap_or("").to_string()
}

impl Scenario for ProgramLockstep {
    fn name(&self) -> &'static str {
        "program_lockstep"
    }
    fn quick_runs(&self, _f: &str) -> u64 {
        6400
    }
    fn chunk(&self) -> u64 {
        50
    }
    fn death_property(&self, _f: &str) -> Option<&'static str> {
        Some("C04")
    }
    fn info(&self) -> Info {
        Info {
            rule: "one case = one generated multi-block program (init that copies routines to work/high RAM and programs timer/LCD/IE, main loop of counted loops, CALL/RET nests, RST, JP HL, HALT waits, DI/EI sections, OAM DMA from high RAM, RAM-resident routines, far calls into switchable banks, serial output; five interrupt handlers ending in RETI or EI;RET) loaded through read_header + Core::from_rom_file into a jit-build replica and a non-jit-build replica, stepped block by block (run_code_block when running, update when halted) for up to 2000 steps with joypad events and IF pokes at drawn steps and cache-flush / small-arena faults on the jit replica only; after every step registers, master enable, run state, last block length, all RAM, every readable I/O register, hidden timer/LCD/DMA/joypad state, both frame buffers and the bytes each replica wrote to fd 1 are compared. distinct_nontrivial = distinct (program hash, steps executed) runs in which at least one interrupt was dispatched or a HALT was left",
            components_real: &["Core::run_code_block/update/handle_interrupt of both builds", "cache + emitter (jit replica) vs interpreter (non-jit replica)", "all devices, OAM DMA, MBC bank state, serial port writing to the real fd 1"],
            components_stub: &["host window / event loop absent: joypad events come from the simulator's schedule", "fd 1 is a memfd owned by the simulator"],
            assumptions: &["programs never write bank registers from code located in the switchable bank (known-finding class of C01/C03)", "undefined opcodes / execution outside executable regions end a run when both replicas fail alike"],
            fault_kinds: &["flush (jit replica's cache emptied at drawn steps)", "arena (small translation arena)", "joy (press/release at drawn steps)", "irq (IF pokes: serial bit, others)"],
        }
    }

    fn generate(&self, rng: &mut Rng, _index: u64, thorough: bool, case: &mut Case) {
        let small_arena = rng.chance(1, 3);
        let far = small_arena && rng.chance(2, 3);
        let _p = crate::proggen::generate_program_biased(rng, case, thorough, far);
        if small_arena {
            case.set("arena", rng.pick(&[0x1000i64, 0x1000, 0x2000, 0x2000, 0x4000, 0x10000]));
        }
        let total = if thorough { rng.range(200, 6000) } else { rng.range(100, 2000) };
        let mut left = total;
        while left > 0 {
            let n = rng.range(1, 200).min(left);
            case.push("s", &[n]);
            left -= n;
            match rng.below(10) {
                0 | 1 => case.push("j", &[rng.below(8) as i64, 1]),
                2 => case.push("j", &[rng.below(8) as i64, 0]),
                3 => case.push("f", &[]),
                4 => case.push("q", &[1 << rng.below(5)]),
                _ => {}
            }
        }
    }

    fn run(&self, case: &Case, ctx: &mut Ctx) -> Vec<Violation> {
        let arena = case.get("arena");
        crate::machine::set_arena_size(if arena > 0 { (arena as usize).max(0x1000) } else { 0 });
        let built = replicas(case, &[true, false]);
        crate::machine::set_arena_size(0);
        let (_img, mut reps) = match built {
            Ok(x) => x,
            Err(_) => return vec![],
        };
        let mut out = Vec::new();
        let mut steps = 0u64;
        let mut clocks = 0u64;
        let mut dispatches = 0u64;
        let mut halts_left = 0u64;
        let mut ram_blocks = 0u64;
        let _ = crate::capture::take();
        'ops: for (opi, op) in case.ops.iter().enumerate() {
            match op.k {
                "j" => {
                    for m in reps.iter_mut() {
                        if op.arg(1) != 0 {
                            m.press(op.arg(0) as u8);
                        } else {
                            m.release(op.arg(0) as u8);
                        }
                    }
                    ctx.cov.hit("fault.joy_events");
                }
                "q" => {
                    for m in reps.iter_mut() {
                        let f = m.iflag();
                        m.set_iflag(f | (op.arg(0) & 0x1f) as u8);
                    }
                    ctx.cov.hit("fault.irq_pokes");
                }
                "f" => {
                    if !reps[0].cache_entries().is_empty() {
                        ctx.cov.hit("fault.flush_discarded_entries");
                    }
                    reps[0].flush_cache();
                }
                "s" => {
                    for _ in 0..op.arg(0).clamp(0, 10000) {
                        steps += 1;
                        let pre = reps[1].regs();
                        let pre_state = reps[1].run_state();
                        let pre_sp = pre.sp;
                        let entries_before = if arena > 0 { reps[0].cache_entries().len() } else { 0 };
                        crate::machine::set_arena_size(if arena > 0 { (arena as usize).max(0x1000) } else { 0 });
                        let rj = block_step(reps[0].as_mut());
                        crate::machine::set_arena_size(0);
                        let oj = crate::capture::take();
                        let bank_before = reps[1].rom_bank();
                        reps[1].trace_start();
                        let rn = block_step(reps[1].as_mut());
                        let on = crate::capture::take();
                        // a derailed program can end up running a block in the switchable bank that remaps that bank (pushes with the
                        // stack in 0x2000-0x7FFF, stores through a stray HL): the known-finding class of C01/C03
                        let bank_writes = reps[1].trace_take().iter().filter(|e| e.0 == 1 && e.1 >= 0x2000 && e.1 < 0x8000).count();
                        let self_switch = pre_state == RUN && (0x4000..0x8000).contains(&pre.ip) && case.get("cart_type") != 0 && bank_writes > 0 && (reps[1].rom_bank() != bank_before || bank_writes >= 2);
                        if self_switch {
                            ctx.cov.hit("probe.block_remapped_its_own_bank");
                        }
                        if arena > 0 && reps[0].cache_entries().len() < entries_before {
                            ctx.cov.hit("fault.arena_full_cache_emptied");
                        }
                        match (&rj, &rn) {
                            (Err(a), Err(b)) => {
                                ctx.cov.hit("both_replicas_panicked_alike");
                                let _ = (a, b);
                                break 'ops;
                            }
                            (Err(a), Ok(())) | (Ok(()), Err(a)) => {
                                if arena > 0 && rj.is_err() && a.contains("does not fit") {
                                    ctx.cov.hit("probe.block_larger_than_reduced_arena");
                                    break 'ops;
                                }
                                let who = if rj.is_err() { "jit" } else { "non-jit" };
                                out.push(Violation::new("C04", format!("C04/only-one-build-panicked/{}/{}", who, msg_of(a)), format!("op {} step {} (pc {:#06x}): only the {} build panicked: {}", opi, steps, pre.ip, who, a)));
                                break 'ops;
                            }
                            _ => {}
                        }
                        let sj = reps[0].snap(true);
                        let sn = reps[1].snap(true);
                        if let Some(field) = sj.diff_field(&sn, &[]) {
                            out.push(Violation::new("C04", format!("C04/diverged/{}", field), format!("op {} step {} (block at pc {:#06x}, run state {}): jit vs non-jit build: {}", opi, steps, pre.ip, pre_state, sj.diff(&sn, &[]).unwrap())));
                            break 'ops;
                        }
                        if oj != on {
                            out.push(Violation::new("C04", "C04/diverged/serial-output".to_string(), format!("op {} step {} (pc {:#06x}): bytes written to fd 1: jit {:02x?} vs non-jit {:02x?}", opi, steps, pre.ip, &oj[..oj.len().min(32)], &on[..on.len().min(32)])));
                            break 'ops;
                        }
                        if !on.is_empty() {
                            ctx.cov.add("probe.serial_bytes_compared", on.len() as u64);
                        }
                        clocks += 4 * sn.get("last_block_cycles").max(1);
                        // probes
                        let post = reps[1].regs();
                        if pre_state != RUN && reps[1].run_state() == RUN {
                            halts_left += 1;
                        }
                        if post.sp == pre_sp.wrapping_sub(2) && matches!(post.ip, 0x40 | 0x48 | 0x50 | 0x58 | 0x60) {
                            dispatches += 1;
                            ctx.cov.mark("interrupt_sources_dispatched", post.ip as u64);
                        }
                        if pre_state == RUN && pre.ip >= 0x8000 {
                            ram_blocks += 1;
                        }
                    }
                }
                _ => {}
            }
        }
        ctx.cov.add("steps", steps);
        ctx.cov.add("sim_clocks", clocks * 2);
        ctx.cov.add("probe.interrupt_dispatches", dispatches);
        ctx.cov.add("probe.halt_wakeups", halts_left);
        ctx.cov.add("probe.blocks_executed_from_ram", ram_blocks);
        if reps[1].dma().is_some() || reps[1].snap(false).get("hid.dma") != u64::MAX {
            ctx.cov.hit("probe.run_ended_with_dma_in_flight");
        }
        if dispatches > 0 || halts_left > 0 {
            let key = crate::prng::hash_bytes(case.blob(&crate::cart::patch_key(0x150))) ^ steps;
            ctx.cov.mark("distinct", key);
        }
        out
    }
}
