//! C17 — joypad matrix and interrupt: random walks over (buttons, selection)
//! with external press/release events, select writes and collection points,
//! against RefJoypad; directly on the Joypad device and through the bus/IO.

use super::{Ctx, Info, Scenario, Violation};
use crate::case::Case;
use crate::machine::{IntMachine, Machine};
use crate::model::joypad::RefJoypad;
use crate::prng::Rng;
use gb_int::devices::joypad::{Button, Joypad};

pub struct JoypadEvents;

fn button(b: u8) -> Button {
    match b & 7 {
        0 => Button::A,
        1 => Button::B,
        2 => Button::Select,
        3 => Button::Start,
        4 => Button::Right,
        5 => Button::Left,
        6 => Button::Up,
        _ => Button::Down,
    }
}

enum Dev {
    Direct(Joypad),
    Bus(Box<dyn Machine>),
}

impl Dev {
    fn press(&mut self, b: u8) {
        match self {
            Dev::Direct(j) => j.press_button(button(b)),
            Dev::Bus(m) => m.press(b),
        }
    }
    fn release(&mut self, b: u8) {
        match self {
            Dev::Direct(j) => j.release_button(button(b)),
            Dev::Bus(m) => m.release(b),
        }
    }
    fn write(&mut self, v: u8) {
        match self {
            Dev::Direct(j) => j.set_value(v),
            Dev::Bus(m) => m.write(0xff00, v),
        }
    }
    fn p1(&mut self) -> u8 {
        match self {
            Dev::Direct(j) => j.get_value(),
            Dev::Bus(m) => m.read(0xff00),
        }
    }
    /// bus only: one machine cycle of device time passes, IF is neither read nor cleared (direct: nothing happens)
    fn idle(&mut self) {
        if let Dev::Bus(m) = self {
            m.clock(4);
        }
    }
    /// bus only: the guest writes IF between an event and the next catch-up (direct: nothing happens)
    fn write_if(&mut self, v: u8) {
        if let Dev::Bus(m) = self {
            m.write(0xff0f, v);
        }
    }
    /// collect the latched request (bus: one machine cycle of device time moves it into IF bit 4, which is then cleared)
    fn collect(&mut self) -> bool {
        match self {
            Dev::Direct(j) => j.get_interrupt().as_u8() & 0x10 != 0,
            Dev::Bus(m) => {
                m.clock(4);
                let f = m.read(0xff0f);
                m.write(0xff0f, f & 0x0f);
                f & 0x10 != 0
            }
        }
    }
}

impl Scenario for JoypadEvents {
    fn name(&self) -> &'static str {
        "joypad_events"
    }
    fn quick_runs(&self, _f: &str) -> u64 {
        24000
    }
    fn chunk(&self) -> u64 {
        250
    }
    fn death_property(&self, _f: &str) -> Option<&'static str> {
        Some("C17")
    }
    fn info(&self) -> Info {
        Info {
            rule: "one case = a random walk of 50..500 actions (press/release of one of 8 buttons = external events, P1 select writes with garbage in the unused bits, request collection points, and - through the bus - machine cycles that pass without IF being read or cleared) from a drawn start state, on the real Joypad directly (3 of 4 runs) or through the bus and IO::run_clock_cycles (IF bit 4); after every action P1 & 0x3F is compared with RefJoypad, at every collection point the request latch. distinct_nontrivial = distinct (8 buttons, 2 select bits, action) transitions taken, of 256 x 4 x 20 = 20480",
            components_real: &["devices::joypad::Joypad press_button/release_button/set_value/get_value/get_interrupt", "bus mode: mem::memory_write_byte/read_byte 0xFF00/0xFF0F, IO::set_byte/get_byte, IO::run_clock_cycles, MemoryAreas::run_clock_cycles"],
            components_stub: &["CPU absent; the host window's event loop is replaced by the simulator's event schedule"],
            assumptions: &["P1 bits 6-7 not compared", "a request is collected by get_interrupt (direct) or by one machine cycle of device time followed by reading and clearing IF bit 4 (bus)"],
            fault_kinds: &["joy (press/release events)", "step (where collection points fall between actions)"],
        }
    }

    fn generate(&self, rng: &mut Rng, index: u64, thorough: bool, case: &mut Case) {
        case.set("bus", (index % 4 == 3) as i64);
        // start state
        let b0 = rng.byte();
        for i in 0..8 {
            if b0 & (1 << i) != 0 {
                case.push("p", &[i]);
            }
        }
        case.push("s", &[(rng.below(4) << 4) as i64 | (rng.byte() & 0xcf) as i64]);
        case.push("c", &[]);
        let n = rng.range(50, if thorough { 1500 } else { 500 });
        let collect_rate = rng.pick(&[2u64, 4, 10, 40]);
        for _ in 0..n {
            match rng.below(20) {
                0..=7 => case.push("p", &[rng.below(8) as i64]),
                8..=14 => case.push("r", &[rng.below(8) as i64]),
                _ => case.push("s", &[(rng.below(4) << 4) as i64 | (rng.byte() & 0xcf) as i64]),
            }
            if rng.chance(1, 6) {
                case.push("a", &[]);
            }
            if rng.chance(1, 8) {
                // the guest writes IF before the devices have caught up (a latched request must survive that)
                case.push("w", &[rng.pick(&[0x00i64, 0x0f, 0x10, 0x1f, 0xe0])]);
            }
            if rng.chance(1, collect_rate) {
                case.push("c", &[]);
                if rng.chance(1, 8) {
                    case.push("c", &[]);
                }
            }
        }
        case.push("c", &[]);
    }

    fn run(&self, case: &Case, ctx: &mut Ctx) -> Vec<Violation> {
        let bus = case.get("bus") != 0;
        let mut dev = if bus { Dev::Bus(IntMachine::from_code(vec![0x18, 0xfe])) } else { Dev::Direct(Joypad::new()) };
        let mode = if bus { "bus" } else { "direct" };
        let mut model = RefJoypad::new();
        // bus mode: IF bit 4 as the program sees it (a request moved into IF stays there until IF is written)
        let mut if_bit = false;
        let mut out = Vec::new();
        for (opi, op) in case.ops.iter().enumerate() {
            let before = (model.buttons, model.select, model.lines());
            let action: u64;
            match op.k {
                "p" => {
                    let b = op.arg(0) as u8 & 7;
                    dev.press(b);
                    model.press(b);
                    action = b as u64;
                    ctx.cov.hit("fault.joy_press");
                }
                "r" => {
                    let b = op.arg(0) as u8 & 7;
                    dev.release(b);
                    model.release(b);
                    action = 8 + b as u64;
                    ctx.cov.hit("fault.joy_release");
                }
                "s" => {
                    let v = op.arg(0) as u8;
                    dev.write(v);
                    model.write(v);
                    action = 16 + ((v >> 4) & 3) as u64;
                }
                "a" => {
                    dev.idle();
                    if bus && model.collect() {
                        if_bit = true;
                        ctx.cov.hit("probe.request_left_unacknowledged_in_if");
                    }
                    continue;
                }
                "w" => {
                    if bus {
                        let v = op.arg(0) as u8;
                        dev.write_if(v);
                        // what the guest wrote is what IF bit 4 holds now; the joypad's own latch is not touched by it
                        if_bit = v & 0x10 != 0;
                        ctx.cov.hit("probe.if_written_before_catch_up");
                    }
                    continue;
                }
                "c" => {
                    let got = dev.collect();
                    let want = model.collect() | if_bit;
                    if_bit = false;
                    if got != want {
                        let sig = if want { format!("C17/request-missed/{}", mode) } else { format!("C17/request-spurious/{}", mode) };
                        out.push(Violation::new("C17", sig, format!("op {}: collected request = {}, model says {} (buttons {:#04x}, select {:#04x})", opi, got, want, model.buttons, model.select)));
                        return out;
                    }
                    if want {
                        ctx.cov.hit("probe.requests_collected");
                    }
                    continue;
                }
                _ => continue,
            }
            let after_lines = model.lines();
            let fell = before.2 & !after_lines & 0xf;
            let rose = !before.2 & after_lines & 0xf;
            if fell != 0 && rose != 0 {
                ctx.cov.hit("probe.line_fell_while_another_rose");
                if rose > fell {
                    ctx.cov.hit("probe.fall_with_rise_on_higher_line");
                }
            }
            if fell != 0 {
                ctx.cov.hit("probe.falling_line");
            }
            ctx.cov.mark("distinct", (before.0 as u64) << 16 | ((before.1 >> 4) as u64) << 8 | action);
            let got = dev.p1() & 0x3f;
            let want = model.p1() & 0x3f;
            if got != want {
                out.push(Violation::new("C17", format!("C17/p1-value/{}", mode), format!("op {} {:?}: P1 & 0x3F = {:#04x}, model {:#04x} (buttons {:#04x}, select {:#04x})", opi, op, got, want, model.buttons, model.select)));
                return out;
            }
        }
        ctx.cov.hit(if bus { "mode.bus" } else { "mode.direct" });
        out
    }
}
