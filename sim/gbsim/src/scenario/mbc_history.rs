//! C12 — MBC1/MBC3 register protocol, observed only through the bus and the
//! fetch view on a core built by Core::from_rom_file; every ROM bank and every
//! cartridge-RAM bank carries its own index.

use super::{Ctx, Info, Scenario, Violation};
use crate::cart::{ram_bytes, rom_banks, CART_TYPES, RAM_CODES, ROM_CODES};
use crate::case::Case;
use crate::machine::Regs;
use crate::model::mbc::RefMbc;
use crate::prng::Rng;
use crate::setup::replicas;

pub struct MbcHistory;

const VALUES: [u8; 20] = [0x00, 0x01, 0x02, 0x03, 0x04, 0x08, 0x0a, 0x0c, 0x1f, 0x20, 0x21, 0x3f, 0x40, 0x60, 0x7f, 0x80, 0xe0, 0xff, 0x10, 0x1e];
const ADDRS: [u16; 14] = [0x0000, 0x1fff, 0x2000, 0x2100, 0x3fff, 0x4000, 0x4001, 0x5fff, 0x6000, 0x6001, 0x7fff, 0x3000, 0x5000, 0x7000];

impl Scenario for MbcHistory {
    fn name(&self) -> &'static str {
        "mbc_history"
    }
    fn quick_runs(&self, _f: &str) -> u64 {
        504 * 120
    }
    fn chunk(&self) -> u64 {
        504
    }
    fn death_property(&self, _f: &str) -> Option<&'static str> {
        Some("C12")
    }
    fn info(&self) -> Info {
        Info {
            rule: "one case = one cartridge configuration (run index walks the 7 types x 12 ROM-size codes x 6 RAM-size codes = 504 combinations round-robin) + a seeded history of 1..40 writes to 0x0000-0x7FFF; after every write the ROM bank id visible at 0x0002/0x3FFE (bank 0), 0x4002/0x5FFE/0x7FFE (switchable bank), through the fetch view, the cartridge-RAM bank id at 0xA000 and (drawn) the bank id loaded by executing the stub at 0x4000 in both engines are compared with RefMbc. distinct_nontrivial = distinct (type, ROM code, RAM code, register-state class after the history) tuples",
            components_real: &["cart::{MBC1CartState, MBC3CartState, NullCartState}::write_rom/get_rom_bank/get_ram_bank", "Header::create_cart_state, MemoryAreas::with_rom_file", "mem::memory_read_byte/memory_write_byte, get_executable_memory_slice", "interpreter and translated code executing the bank's stub at 0x4000 (cache flushed first, so C03's subject is excluded)"],
            components_stub: &["devices idle; CPU only runs the 3-instruction bank stub"],
            assumptions: &["protocol as stated: MBC1 mode 0 ROM bank = (hi2<<5)|low5', RAM bank 0; mode 1 ROM bank = low5', RAM bank hi2; low5 0->1 in both modes; MBC3 7-bit, 0->1, RAM bank = last value < 4; all reduced modulo the cartridge's actual bank counts; 0x0000-0x3FFF is bank 0", "RAM-enable gating is not specified: with RAM disabled a read of 0xA000 may show the bank's byte or 0xFF", "MBC3 values >= 4 written to 0x4000-0x5FFF (RTC selection) are not specified: RAM window not compared until a value < 4 is written", "cartridge RAM window compared only when the cartridge has >= 8 KiB RAM per bank (2 KiB carts: first 2 KiB)"],
            fault_kinds: &["bank (register-write histories)", "flush (before each executed stub)"],
        }
    }

    fn generate(&self, rng: &mut Rng, index: u64, thorough: bool, case: &mut Case) {
        let cfg = (index % 504) as usize;
        let cart_type = CART_TYPES[cfg % 7];
        let rom_code = ROM_CODES[(cfg / 7) % 12];
        let ram_code = RAM_CODES[cfg / 84];
        case.set("cart_type", cart_type as i64);
        case.set("rom_code", rom_code as i64);
        case.set("ram_code", ram_code as i64);
        case.set("rom_fill", 1);
        let n = rng.range(1, if thorough { 80 } else { 40 });
        for _ in 0..n {
            let addr = if rng.chance(2, 3) { rng.pick(&ADDRS) } else { rng.below(0x8000) as u16 };
            let v = if rng.chance(2, 3) { rng.pick(&VALUES) } else { rng.byte() };
            case.push("w", &[addr as i64, v as i64]);
            if rng.chance(1, 6) {
                case.push("x", &[]);
            }
        }
    }

    fn run(&self, case: &Case, ctx: &mut Ctx) -> Vec<Violation> {
        let cart_type = case.get("cart_type") as u8;
        let rom_code = case.get("rom_code") as u8;
        let ram_code = case.get("ram_code") as u8;
        let (_img, mut reps) = match replicas(case, &[true]) {
            Ok(x) => x,
            Err(_) => return vec![],
        };
        let m = reps[0].as_mut();
        let nbanks = rom_banks(rom_code);
        let rbytes = ram_bytes(ram_code);
        let mut model = RefMbc::new(cart_type, nbanks, rbytes);
        // mark every cartridge-RAM bank with its index + 1 (directly in the backing store)
        {
            let cram = m.cram();
            let banks = (cram.len() / 0x2000).max(if cram.is_empty() { 0 } else { 1 });
            for b in 0..banks {
                cram[b * 0x2000] = b as u8 + 1;
            }
        }
        let tname = match model.kind {
            1 => "mbc1",
            3 => "mbc3",
            _ => "none",
        };
        let mut out = Vec::new();
        let fail = |what: &str, opi: usize, detail: String| Violation::new("C12", format!("C12/{}/{}", what, tname), format!("op {}: {}", opi, detail));
        for (opi, op) in case.ops.iter().enumerate() {
            match op.k {
                "w" => {
                    let addr = (op.arg(0) & 0x7fff) as u16;
                    let v = op.arg(1) as u8;
                    m.write(addr, v);
                    model.write(addr, v);
                }
                "x" => {
                    // execute the stub of the visible bank in both engines; cold cache
                    let want = model.rom_bank() as u32;
                    for jit in [true, false] {
                        m.flush_cache();
                        m.set_regs(Regs { af: 0, bc: 0xffff, de: 0, hl: 0, sp: 0xdff0, ip: 0x4000, cycles: 0 });
                        m.wram()[0x1ff0] = 0x34;
                        m.wram()[0x1ff1] = 0x12;
                        let r = std::panic::catch_unwind(std::panic::AssertUnwindSafe(|| if jit { m.engine_jit_block() } else { m.engine_interp_block() }));
                        if r.is_err() {
                            let msg = crate::driver::take_panic();
                            out.push(fail("stub-panicked", opi, format!("executing the visible bank's stub panicked: {}", msg)));
                            return out;
                        }
                        let bc = m.regs().bc;
                        if bc != want {
                            out.push(fail(if jit { "executed-bank/jit" } else { "executed-bank/interpreter" }, opi, format!("stub at 0x4000 loaded bank id {:#x}, protocol says bank {:#x} ({:?})", bc, want, model)));
                            return out;
                        }
                    }
                    ctx.cov.hit("probe.stub_executions");
                    continue;
                }
                _ => continue,
            }
            // observe after every write
            let b0 = m.read(0x0002) as u32 | (m.read(0x0003) as u32) << 8;
            let b0e = m.read(0x3ffe) as u32 | (m.read(0x3fff) as u32) << 8;
            if b0 != 0 || b0e != 0 {
                out.push(fail("low-window-not-bank0", opi, format!("0x0000-0x3FFF shows bank id {:#x}/{:#x}", b0, b0e)));
                return out;
            }
            let want = model.rom_bank() as u32;
            for probe in [0x4002u16, 0x5ffe, 0x7ffe] {
                let got = m.read(probe) as u32 | (m.read(probe + 1) as u32) << 8;
                if got != want {
                    let cls = if model.kind == 1 && model.low == 0 && model.mode == 1 {
                        "rom-bank/mbc1-mode1-zero"
                    } else if model.rom_bank() != raw_bank(&model) {
                        "rom-bank/reduction"
                    } else {
                        "rom-bank/other"
                    };
                    out.push(fail(cls, opi, format!("read {:#06x} shows ROM bank {:#x}, protocol says {:#x} (of {} banks; {:?})", probe, got, want, nbanks, model)));
                    return out;
                }
            }
            let fv = m.fetch_view(0x4002, 2);
            if fv.len() < 2 || (fv[0] as u32 | (fv[1] as u32) << 8) != want {
                out.push(fail("rom-bank/fetch-view", opi, format!("fetch view at 0x4002 = {:02x?}, protocol says bank {:#x}", fv, want)));
                return out;
            }
            if rbytes > 0 && !model.rtc_selected {
                let got = m.read(0xa000);
                let want_r = model.ram_bank() as u8 + 1;
                let ok = got == want_r || (!model.ramg && got == 0xff);
                if !ok {
                    out.push(fail("ram-bank", opi, format!("read 0xA000 shows RAM bank marker {:#x}, protocol says bank {} (marker {:#x}) ({:?})", got, model.ram_bank(), want_r, model)));
                    return out;
                }
                ctx.cov.hit("probe.ram_window_checked");
            }
            ctx.cov.mark("states", (model.kind as u64) << 24 | (model.low as u64) << 8 | (model.hi2 as u64) << 4 | (model.mode as u64) << 1 | model.ramg as u64);
            if model.rom_bank() != raw_bank(&model) {
                ctx.cov.hit("probe.bank_reduced_to_rom_size");
            }
            if model.low == 0 && model.kind != 0 {
                ctx.cov.hit("probe.zero_written_to_low_bits");
            }
            if model.kind == 1 && model.mode == 1 {
                ctx.cov.hit("probe.mbc1_mode1_observations");
            }
        }
        let cls = (model.low == 0) as u64 | (model.mode as u64) << 1 | ((model.hi2 != 0) as u64) << 2 | ((model.rom_bank() != raw_bank(&model)) as u64) << 3;
        ctx.cov.mark("distinct", (cart_type as u64) << 32 | (rom_code as u64) << 16 | (ram_code as u64) << 8 | cls);
        ctx.cov.mark("configs", (cart_type as u64) << 32 | (rom_code as u64) << 16 | (ram_code as u64) << 8);
        out
    }
}

fn raw_bank(m: &RefMbc) -> usize {
    let mut big = m.clone();
    big.rom_banks = 1 << 20;
    big.rom_bank()
}
