//! C16 — OAM DMA: timed histories of transfer starts, source/OAM writes, bank
//! switches and restarts, run under three partitions of the elapsed time on the
//! real bus and compared with RefBus (one byte per machine cycle, source read
//! at copy time).

use super::{Ctx, Info, Scenario, Violation};
use crate::case::Case;
use crate::machine::Machine;
use crate::prng::{hash_bytes, Rng};
use crate::setup::{model_of, replicas};

pub struct DmaBatches;

const SIZES: [u64; 10] = [4, 8, 156 * 4, 159 * 4, 160 * 4, 161 * 4, 644, 320, 16, 1024];

fn others_digest(m: &mut dyn Machine) -> [u64; 6] {
    [hash_bytes(m.vram()), hash_bytes(m.cram()), hash_bytes(m.wram()), hash_bytes(m.hram()), m.ie() as u64, (m.rom_bank() as u64) << 8 | m.ram_bank() as u64]
}

impl Scenario for DmaBatches {
    fn name(&self) -> &'static str {
        "dma_batches"
    }
    fn quick_runs(&self, _f: &str) -> u64 {
        256 * 96
    }
    fn chunk(&self) -> u64 {
        128
    }
    fn death_property(&self, _f: &str) -> Option<&'static str> {
        Some("C16")
    }
    fn info(&self) -> Info {
        Info {
            rule: "one case = one cartridge (all supported types) + a timed history of DMA starts (run index walks all 256 source pages round-robin), writes into the source range and into OAM while the transfer runs, bank-register writes while the source is banked ROM/cartridge RAM, restarts at drawn progress (0, 1, 159, 160 favoured) and elapsed-time gaps; executed on three replicas of the real MemoryAreas that differ only in how each gap is split into run_clock_cycles batches (every machine cycle / one batch / drawn sizes around 156-161 cycles); after every operation and gap OAM is compared with RefBus (byte n copied at machine cycle n from the map as it stands then), every other memory region must be untouched by elapsed time, DMA progress must be min(160, elapsed cycles) and the replicas must agree. distinct_nontrivial = distinct (source page, events during transfer, partition) cases in which at least one transfer completed",
            components_real: &["mem::memory_write_byte 0xFF46, MemoryAreas::run_clock_cycles (DMA engine + device fan-out), memory_read_byte/_write_byte for source and OAM", "cart bank state for banked sources"],
            components_stub: &["CPU absent: the simulator issues the writes and chooses batch sizes"],
            assumptions: &["time gaps are multiples of 4 clocks", "an OAM byte copied from a source whose read value the statement leaves open (P1, IF, serial, DMA register, cartridge RAM that is absent) is not compared until rewritten", "timer/LCD stay at power-on configuration unless the history writes them"],
            fault_kinds: &["step (batch partition)", "bank (switch while the source is banked)", "restart (new 0xFF46 write at drawn progress)"],
        }
    }

    fn generate(&self, rng: &mut Rng, index: u64, thorough: bool, case: &mut Case) {
        let cart_type = rng.pick(&crate::cart::CART_TYPES);
        case.set("cart_type", cart_type as i64);
        case.set("rom_code", if cart_type == 0 { 0 } else { rng.pick(&[1i64, 2, 3]) });
        case.set("ram_code", rng.pick(&[0i64, 1, 2, 3, 3, 2]));
        case.set("rom_fill", 2 + rng.below(1 << 30) as i64);
        case.set("ramfill", 1 + rng.below(1 << 30) as i64);
        if cart_type != 0 && rng.chance(1, 2) {
            case.push("w", &[0x0000, 0x0a]);
            case.push("w", &[0x2000, rng.below(16) as i64]);
        }
        if rng.chance(1, 4) {
            // a running timer / LCD interrupt sources, so that I/O-page sources move
            case.push("w", &[0xff07, rng.pick(&[4i64, 5, 6, 7])]);
        }
        let n_transfers = rng.range(1, if thorough { 6 } else { 3 });
        for t in 0..n_transfers {
            // every page in turn for the first transfer; later ones drawn, with the I/O page (whose contents move with time)
            // and the OAM page itself over-represented
            let page = if t == 0 { (index % 256) as i64 } else if rng.chance(1, 4) { rng.pick(&[0xffi64, 0xff, 0xfe, 0xe0]) } else { rng.below(256) as i64 };
            case.push("start", &[page]);
            // events while the transfer is in flight
            let mut elapsed = 0u64;
            let target_restart = match rng.below(6) {
                0 => Some(rng.pick(&[0u64, 1, 2, 158, 159, 160, 161])),
                1 => Some(rng.below(170)),
                _ => None,
            };
            let events = rng.below(6);
            for _ in 0..=events {
                let mut gap: u64 = match rng.below(5) {
                    0 => rng.pick(&SIZES),
                    1 => 4 * rng.below(12),
                    2 => 4 * rng.below(170),
                    3 => 4 * rng.below(60),
                    _ => 4 * (160u64.saturating_sub(elapsed / 4) as i64 + rng.range(-2, 2)).max(0) as u64,
                };
                if let Some(r) = target_restart {
                    if elapsed / 4 < r && (elapsed + gap) / 4 >= r {
                        gap = (r - elapsed / 4) * 4;
                    }
                }
                let mut parts: Vec<i64> = vec![gap as i64];
                let mut left = gap;
                while left > 0 && parts.len() < 24 {
                    let p = match rng.below(3) {
                        0 => rng.pick(&SIZES),
                        1 => 4 * rng.below(40),
                        _ => 4 * rng.below(left / 4 + 1),
                    }
                    .min(left);
                    parts.push(p as i64);
                    left -= p;
                }
                case.ops.push(crate::case::Op { k: "adv", a: parts });
                elapsed += gap;
                if let Some(r) = target_restart {
                    if elapsed / 4 == r {
                        case.push("start", &[if rng.chance(1, 2) { page } else { rng.below(256) as i64 }]);
                        elapsed = 0;
                        continue;
                    }
                }
                match rng.below(6) {
                    0 | 1 => {
                        // write into the source range (ahead of or behind the copy position)
                        let off = rng.below(0xa0) as i64;
                        case.push("w", &[(page << 8) | off, rng.byte() as i64]);
                    }
                    2 => case.push("w", &[0xfe00 + rng.below(0xa0) as i64, rng.byte() as i64]),
                    3 => {
                        let (reg, v) = match rng.below(3) {
                            0 => (0x2000, rng.below(16) as i64),
                            1 => (0x4000, rng.below(4) as i64),
                            _ => (0x6000, rng.below(2) as i64),
                        };
                        case.push("w", &[reg, v]);
                    }
                    _ => {}
                }
            }
            // let it finish
            let tail = 4 * rng.below(200);
            case.ops.push(crate::case::Op { k: "adv", a: vec![tail as i64, (tail / 2 & !3) as i64] });
        }
    }

    fn run(&self, case: &Case, ctx: &mut Ctx) -> Vec<Violation> {
        let (_img, mut reps) = match replicas(case, &[false, false, false]) {
            Ok(x) => x,
            Err(_) => return vec![],
        };
        let names = ["P4", "Pmax", "Prand"];
        let mut model = model_of(case, reps[0].as_mut());
        let cram_len = reps[0].cram().len();
        let mut out = Vec::new();
        let mut hkey: Vec<u64> = Vec::new();
        let mut since_start: Option<u64> = None; // machine cycles since the last start
        let mut completed = 0u64;
        let mut clocks = 0u64;
        let mbc3 = case.get("cart_type") >= 0x11;

        // compare OAM of one replica with the model
        let check_oam = |m: &mut dyn Machine, model: &mut crate::model::bus::RefBus, name: &str, opi: usize, what: &str| -> Option<Violation> {
            let oam: Vec<u8> = m.oam().to_vec();
            for i in 0..0xa0 {
                if model.oam_known[i] {
                    if oam[i] != model.oam[i] {
                        let inflight = model.dma.is_some();
                        let cls = if inflight { "during-transfer" } else { "after-transfer" };
                        return Some(Violation::new("C16", format!("C16/oam-content/{}/{}", cls, name), format!("op {} ({}): {} OAM[{:#04x}] = {:#04x}, reference {:#04x} (transfer {:?})", opi, what, name, i, oam[i], model.oam[i], model.dma)));
                    }
                }
            }
            None
        };

        for (opi, op) in case.ops.iter().enumerate() {
            match op.k {
                "w" => {
                    let (a, mut v) = (op.arg(0) as u16, op.arg(1) as u8);
                    if a < 0x2000 {
                        v = 0x0a; // keep cartridge RAM enabled (gating is not specified)
                    }
                    if mbc3 && (0x4000..0x6000).contains(&a) {
                        v &= 3; // RTC register selection is not specified
                    }
                    if a == 0xff46 {
                        continue;
                    }
                    for m in reps.iter_mut() {
                        m.write(a, v);
                    }
                    model.write(a, v);
                    hkey.push(0x1_0000 | a as u64);
                    if model.dma.is_some() {
                        ctx.cov.hit(if a >= 0xfe00 && a < 0xfea0 { "probe.oam_written_during_transfer" } else if a < 0x8000 { "fault.bank_switch_during_transfer" } else { "probe.source_written_during_transfer" });
                    }
                }
                "start" => {
                    let page = op.arg(0) as u8;
                    if let Some(c) = since_start {
                        if c < 160 {
                            ctx.cov.hit("fault.restart_before_completion");
                            ctx.cov.mark("restart_progress", c);
                        }
                    }
                    for m in reps.iter_mut() {
                        m.write(0xff46, page);
                    }
                    model.write(0xff46, page);
                    since_start = Some(0);
                    hkey.push(0x2_0000 | page as u64);
                    ctx.cov.mark("pages", page as u64);
                }
                "adv" => {
                    let mut gap = op.arg(0).clamp(0, 1 << 16) as u64;
                    gap -= gap % 4;
                    hkey.push(gap);
                    clocks += gap;
                    let before: Vec<[u64; 6]> = reps.iter_mut().map(|m| others_digest(m.as_mut())).collect();
                    // P4: compare with the model after every machine cycle
                    let mut done = 0;
                    while done < gap {
                        reps[0].clock(4);
                        model.advance(4);
                        done += 4;
                        if let Some(c) = since_start.as_mut() {
                            *c += 1;
                            if *c == 160 {
                                completed += 1;
                            }
                        }
                        if let Some(v) = check_oam(reps[0].as_mut(), &mut model, names[0], opi, "after a machine cycle") {
                            out.push(v);
                            return out;
                        }
                        // progress (H3)
                        let want = since_start.map(|c| c.min(160)).unwrap_or(160);
                        let got = match reps[0].dma() {
                            Some((_, n)) => n as u64,
                            None => 160,
                        };
                        if since_start.is_some() && got != want {
                            out.push(Violation::new("C16", "C16/progress".to_string(), format!("op {}: {} machine cycles after the start the engine has copied {} bytes (want {})", opi, since_start.unwrap(), got, want)));
                            return out;
                        }
                    }
                    // Pmax
                    reps[1].clock(gap as usize);
                    // Prand
                    let mut left = gap;
                    for j in 1..op.a.len() {
                        let mut p = op.arg(j).clamp(0, 1 << 16) as u64;
                        p -= p % 4;
                        let p = p.min(left);
                        if p > 0 {
                            reps[2].clock(p as usize);
                            hkey.push(p);
                            left -= p;
                        }
                    }
                    if left > 0 {
                        reps[2].clock(left as usize);
                    }
                    ctx.cov.add("step.batches", gap / 4 + op.a.len() as u64 + 1);
                    for i in 1..3 {
                        if let Some(v) = check_oam(reps[i].as_mut(), &mut model, names[i], opi, "after the gap") {
                            out.push(v);
                            return out;
                        }
                    }
                    // nothing but OAM (and device registers) may change with time
                    for (i, m) in reps.iter_mut().enumerate() {
                        let after = others_digest(m.as_mut());
                        if after != before[i] {
                            let which = (0..6).find(|&k| after[k] != before[i][k]).unwrap();
                            out.push(Violation::new("C16", format!("C16/other-memory-touched/{}", ["vram", "cart-ram", "wram", "hram", "ie", "mapping"][which]), format!("op {} {}: elapsed time changed {}", opi, names[i], ["VRAM", "cartridge RAM", "work RAM", "high RAM", "IE", "the bank mapping"][which])));
                            return out;
                        }
                    }
                    // replicas agree at the common instant
                    let o0 = reps[0].oam().to_vec();
                    for i in 1..3 {
                        if reps[i].oam().to_vec() != o0 || reps[i].dma() != reps[0].dma() {
                            out.push(Violation::new("C16", format!("C16/batching-dependent/{}", names[i]), format!("op {}: OAM or engine state of {} differs from P4 after the same elapsed time (dma {:?} vs {:?})", opi, names[i], reps[i].dma(), reps[0].dma())));
                            return out;
                        }
                    }
                }
                _ => {}
            }
            // after every operation: OAM vs model on all replicas (writes landing in OAM, starts)
            if op.k != "adv" {
                for i in 0..3 {
                    if let Some(v) = check_oam(reps[i].as_mut(), &mut model, names[i], opi, "after the operation") {
                        out.push(v);
                        return out;
                    }
                }
            }
        }
        let _ = cram_len;
        ctx.cov.add("sim_clocks", clocks * 3);
        ctx.cov.add("probe.transfers_completed", completed);
        ctx.cov.add("probe.bytes_copied_by_reference", model.dma_copied);
        if completed > 0 {
            ctx.cov.mark("distinct", crate::prng::hash_u64s(&hkey));
        }
        out
    }
}
