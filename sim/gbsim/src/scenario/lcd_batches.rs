//! C14 — LCD line/mode schedule vs the closed-form 70224-clock frame, under
//! three partitions of the same elapsed time (every machine cycle, per line,
//! drawn), with STAT/LYC writes between gaps.

use super::{Ctx, Info, Scenario, Violation};
use crate::cart::fill_pattern;
use crate::case::Case;
use crate::machine::{IntMachine, Machine};
use crate::model::lcd::{requests_between, stat_at, state_at, FRAME};
use crate::prng::Rng;
use gb_int::devices::video::VideoState;
use gb_int::timing::ClockCycles;

pub struct LcdBatches;

const SIZES: [u64; 16] = [4, 8, 76, 80, 84, 184, 188, 192, 264, 268, 272, 452, 456, 460, 65664, 70224];

trait Dev {
    /// advance; returns (vblank requested, stat requested) in this batch
    fn adv(&mut self, clocks: u64) -> (bool, bool);
    /// returns whether a STAT request was raised by the write itself
    fn set_stat(&mut self, v: u8) -> bool;
    fn set_lyc(&mut self, v: u8) -> bool;
    fn set_reg(&mut self, reg: u8, v: u8);
    /// (LY, mode from STAT, STAT bits 0-6, LYC read-back)
    fn obs(&mut self) -> (u8, u8, u8, u8);
}

struct Direct {
    v: VideoState,
    vram: Box<[u8]>,
    oam: Box<[u8]>,
}
impl Dev for Direct {
    fn adv(&mut self, clocks: u64) -> (bool, bool) {
        let f = self.v.run_clock_cycles(ClockCycles(clocks as usize), &self.vram, &self.oam).as_u8();
        (f & 1 != 0, f & 2 != 0)
    }
    fn set_stat(&mut self, v: u8) -> bool {
        self.v.set_lcd_status(v).as_u8() & 2 != 0
    }
    fn set_lyc(&mut self, v: u8) -> bool {
        self.v.set_ly_compare(v).as_u8() & 2 != 0
    }
    fn set_reg(&mut self, reg: u8, v: u8) {
        match reg {
            0x40 => self.v.set_lcd_control(v),
            0x42 => self.v.set_scroll_y(v),
            0x43 => self.v.set_scroll_x(v),
            0x47 => self.v.set_bgp(v),
            0x48 => self.v.set_obj_palette(0, v),
            0x49 => self.v.set_obj_palette(1, v),
            0x4a => self.v.set_window_y(v),
            0x4b => self.v.set_window_x(v),
            _ => {}
        }
    }
    fn obs(&mut self) -> (u8, u8, u8, u8) {
        let s = self.v.get_lcd_status();
        (self.v.get_ly(), self.v.get_current_mode(), s & 0x7f, self.v.get_ly_compare())
    }
}

struct Bus(Box<dyn Machine>);
impl Bus {
    fn take(&mut self) -> (bool, bool) {
        let f = self.0.read(0xff0f);
        self.0.write(0xff0f, f & 0x1c);
        (f & 1 != 0, f & 2 != 0)
    }
}
impl Dev for Bus {
    fn adv(&mut self, clocks: u64) -> (bool, bool) {
        self.0.clock(clocks as usize);
        self.take()
    }
    fn set_stat(&mut self, v: u8) -> bool {
        self.0.write(0xff41, v);
        self.take().1
    }
    fn set_lyc(&mut self, v: u8) -> bool {
        self.0.write(0xff45, v);
        self.take().1
    }
    fn set_reg(&mut self, reg: u8, v: u8) {
        self.0.write(0xff00 | reg as u16, v);
    }
    fn obs(&mut self) -> (u8, u8, u8, u8) {
        let s = self.0.read(0xff41);
        (self.0.read(0xff44), s & 3, s & 0x7f, self.0.read(0xff45))
    }
}

fn make(bus: bool, seed: u64) -> Box<dyn Dev> {
    if bus {
        let mut m = IntMachine::from_code(vec![0x18, 0xfe]);
        if seed != 0 {
            let n = m.vram().len();
            m.vram().copy_from_slice(&fill_pattern(seed ^ 0x11, n));
            let n = m.oam().len();
            m.oam().copy_from_slice(&fill_pattern(seed ^ 0x44, n));
        }
        Box::new(Bus(m))
    } else {
        let (vram, oam) = if seed != 0 { (fill_pattern(seed ^ 0x11, 0x2000), fill_pattern(seed ^ 0x44, 0xa0)) } else { (vec![0u8; 0x2000], vec![0u8; 0xa0]) };
        Box::new(Direct { v: VideoState::new(), vram: vram.into_boxed_slice(), oam: oam.into_boxed_slice() })
    }
}

impl Scenario for LcdBatches {
    fn name(&self) -> &'static str {
        "lcd_batches"
    }
    fn quick_runs(&self, _f: &str) -> u64 {
        12800
    }
    fn chunk(&self) -> u64 {
        25
    }
    fn death_property(&self, _f: &str) -> Option<&'static str> {
        Some("C14")
    }
    fn info(&self) -> Info {
        Info {
            rule: "one case = STAT enable mask, LYC, LCDC/scroll/window/palette contents, random VRAM/OAM, and a timed history of gaps (2-5 frames in total) with STAT/LYC writes in between; the real VideoState runs it under three partitions of each gap (4 clocks at a time, 456 at a time, drawn sizes straddling mode changes and the 143->144 / 153->0 hand-overs); after every batch LY, mode and STAT bits 0-6 are compared with the closed-form schedule at that replica's position and the VBlank/STAT request bits with the set of request instants in the batch's interval; on the 4-clock partition every request is pinned to its machine cycle and the distance between VBlank requests must be 70224. distinct_nontrivial = distinct (STAT enables, LYC class, partition hash) cases that covered at least one full frame",
            components_real: &["devices::video::VideoState run_clock_cycles/get_ly/get_current_mode/get_lcd_status/set_lcd_status/set_ly_compare (+ pixel pipeline and sprite search running on random VRAM/OAM)", "bus mode: mem 0xFF40-0xFF4B/0xFF0F, IO::run_clock_cycles, MemoryAreas::run_clock_cycles"],
            components_stub: &["CPU absent: the simulator issues register writes and chooses batch sizes"],
            assumptions: &["batches are multiples of 4 clocks", "LCDC bit 7 kept set", "a STAT request raised by the STAT/LYC write itself (condition already true) is allowed but not required (spec set); requests caused by time are exact", "power-on position is LY=144, mode 1, dot 0"],
            fault_kinds: &["step (batch partition)"],
        }
    }

    fn generate(&self, rng: &mut Rng, index: u64, thorough: bool, case: &mut Case) {
        let bus = index % 4 == 3;
        case.set("bus", bus as i64);
        case.set("fill", if rng.chance(1, 8) { 0 } else { 1 + rng.below(1 << 30) as i64 });
        case.push("reg", &[0x40, (0x80 | rng.byte()) as i64]);
        case.push("reg", &[0x42, rng.byte() as i64]);
        case.push("reg", &[0x43, rng.byte() as i64]);
        case.push("reg", &[0x47, rng.byte() as i64]);
        case.push("reg", &[0x48, rng.byte() as i64]);
        case.push("reg", &[0x49, rng.byte() as i64]);
        case.push("reg", &[0x4a, rng.pick(&[0u8, 1, 50, 143, 144, 200]) as i64]);
        case.push("reg", &[0x4b, rng.pick(&[0u8, 3, 7, 8, 50, 159, 166, 167, 200]) as i64]);
        let lycs = [0u8, 1, 2, 77, 142, 143, 144, 145, 152, 153, 154, 255];
        case.push("stat", &[((rng.below(16) << 3) as u8 | (rng.byte() & 0x87)) as i64]);
        case.push("lyc", &[if rng.chance(3, 4) { rng.pick(&lycs) } else { rng.byte() } as i64]);
        let frames = rng.range(2, if thorough { 8 } else { 4 }) as u64;
        let span = frames * FRAME + 4 * rng.below(20000);
        let mut pos: u64 = 0;
        let writes = rng.chance(1, 2);
        while pos < span {
            let mut gap: u64 = match rng.below(6) {
                0 => rng.pick(&SIZES),
                1 => 4 * rng.below(120),
                2 => 4 * rng.below(2000),
                3 => 4 * rng.below(18000),
                4 => {
                    // up to just before / at / after the next line start or the 143->144 / 153->0 hand-over
                    let t = crate::model::lcd::frame_pos(pos);
                    let target = match rng.below(3) {
                        0 => (t / 456 + 1) * 456,
                        1 => {
                            if t < 144 * 456 {
                                144 * 456
                            } else {
                                FRAME + 144 * 456
                            }
                        }
                        _ => FRAME,
                    };
                    let d = target.saturating_sub(t) as i64 + 4 * rng.range(-2, 2);
                    d.max(0) as u64
                }
                _ => rng.pick(&[456u64, 912, 70224, 70220, 70228]),
            };
            gap -= gap % 4;
            if pos + gap > span + FRAME {
                gap = 456;
            }
            let mut parts: Vec<i64> = vec![gap as i64];
            let mut left = gap;
            while left > 0 && parts.len() < 60 {
                let mut p = match rng.below(4) {
                    0 => rng.pick(&SIZES),
                    1 => 4 * rng.below(64),
                    2 => {
                        let t = crate::model::lcd::frame_pos(pos + (gap - left));
                        let d = t % 456;
                        let nxt = if d < 80 { 80 } else if d < 268 { 268 } else { 456 };
                        ((nxt - d) as i64 + 4 * rng.range(-1, 1)).max(0) as u64
                    }
                    _ => 4 * rng.below(left / 4 + 1),
                };
                p -= p % 4;
                let p = p.min(left);
                parts.push(p as i64);
                left -= p;
            }
            case.ops.push(crate::case::Op { k: "adv", a: parts });
            pos += gap;
            if writes && rng.chance(1, 3) {
                if rng.chance(1, 2) {
                    case.push("stat", &[((rng.below(16) << 3) as u8 | (rng.byte() & 0x87)) as i64]);
                } else {
                    case.push("lyc", &[if rng.chance(3, 4) { rng.pick(&lycs) } else { rng.byte() } as i64]);
                }
            }
        }
    }

    fn run(&self, case: &Case, ctx: &mut Ctx) -> Vec<Violation> {
        let bus = case.get("bus") != 0;
        let mode = if bus { "bus" } else { "direct" };
        let seed = case.get("fill") as u64;
        let names = ["P4", "Pline", "Prand"];
        let mut devs: Vec<Box<dyn Dev>> = vec![make(bus, seed), make(bus, seed), make(bus, seed)];
        let mut pos = [0u64; 3];
        let mut enables: u8 = 0;
        let mut lyc: u8 = 0;
        let mut last_vblank_p4: Option<u64> = None;
        let mut vblanks = 0u64;
        let mut hkey: Vec<u64> = Vec::new();
        let mut out = Vec::new();

        // one batch on one replica + comparison with the closed form
        fn batch(dev: &mut dyn Dev, name: &str, mode: &str, pos: &mut u64, clocks: u64, enables: u8, lyc: u8, opi: usize) -> Result<(bool, bool), Violation> {
            let p0 = *pos;
            let (vb, st) = dev.adv(clocks);
            *pos += clocks;
            let (evb, est) = requests_between(p0, *pos, enables, lyc);
            let (ly, md, stat, _) = dev.obs();
            let want = state_at(*pos);
            if ly != want.ly {
                return Err(Violation::new("C14", format!("C14/ly/{}", mode), format!("op {} {}: after {} clocks (position {} -> {}): LY = {}, schedule says {}", opi, name, clocks, p0, *pos, ly, want.ly)));
            }
            if md != want.mode {
                return Err(Violation::new("C14", format!("C14/mode/{}", mode), format!("op {} {}: position {} (LY {}): mode = {}, schedule says {}", opi, name, *pos, ly, md, want.mode)));
            }
            let wstat = stat_at(*pos, enables, lyc);
            if stat != wstat {
                return Err(Violation::new("C14", format!("C14/stat-readback/{}", mode), format!("op {} {}: position {}: STAT & 0x7F = {:#04x}, schedule says {:#04x}", opi, name, *pos, stat, wstat)));
            }
            if vb != (evb > 0) {
                let sig = if evb > 0 { "vblank-request-missing" } else { "vblank-request-spurious" };
                return Err(Violation::new("C14", format!("C14/{}/{}", sig, mode), format!("op {} {}: interval ({}, {}]: VBlank requested = {}, schedule has {} VBlank instant(s)", opi, name, p0, *pos, vb, evb)));
            }
            if st != (est > 0) {
                let sig = if est > 0 { "stat-request-missing" } else { "stat-request-spurious" };
                return Err(Violation::new("C14", format!("C14/{}/{}", sig, mode), format!("op {} {}: interval ({}, {}] (enables {:#04x}, LYC {}): STAT requested = {}, schedule has {} STAT instant(s)", opi, name, p0, *pos, enables, lyc, st, est)));
            }
            Ok((vb, st))
        }

        for (opi, op) in case.ops.iter().enumerate() {
            match op.k {
                "reg" => {
                    let (r, v) = (op.arg(0) as u8, op.arg(1) as u8);
                    let v = if r == 0x40 { v | 0x80 } else { v };
                    for d in devs.iter_mut() {
                        d.set_reg(r, v);
                    }
                }
                "stat" | "lyc" => {
                    let v = op.arg(0) as u8;
                    for (i, d) in devs.iter_mut().enumerate() {
                        let raised = if op.k == "stat" { d.set_stat(v) } else { d.set_lyc(v) };
                        // spec set: a request at the write is admissible only if the coincidence condition holds now and is enabled
                        let (en, ly_c) = if op.k == "stat" { (v & 0x78, lyc) } else { (enables, v) };
                        let s = state_at(pos[i]);
                        let may = (en & 0x40 != 0 && s.ly == ly_c) || (en & 0x20 != 0 && s.mode == 2) || (en & 0x10 != 0 && s.mode == 1) || (en & 0x08 != 0 && s.mode == 0);
                        if raised {
                            ctx.cov.hit("spec_set_forks");
                        }
                        if raised && !may {
                            out.push(Violation::new("C14", format!("C14/stat-request-at-write-without-condition/{}", mode), format!("op {} {}: write {} <- {:#04x} at position {} raised a STAT request although no enabled condition holds", opi, names[i], op.k, v, pos[i])));
                            return out;
                        }
                    }
                    if op.k == "stat" {
                        enables = v & 0x78;
                    } else {
                        lyc = v;
                    }
                    hkey.push(0x10000 | (op.k == "stat") as u64 * 0x100 | v as u64);
                    // read-back right after the write
                    for (i, d) in devs.iter_mut().enumerate() {
                        let (_, _, stat, lycr) = d.obs();
                        let w = stat_at(pos[i], enables, lyc);
                        if stat != w || lycr != lyc {
                            out.push(Violation::new("C14", format!("C14/stat-readback/{}", mode), format!("op {} {}: after write, STAT & 0x7F = {:#04x} (want {:#04x}), LYC = {} (want {})", opi, names[i], stat, w, lycr, lyc)));
                            return out;
                        }
                    }
                }
                "adv" => {
                    let mut gap = op.arg(0).clamp(0, 1 << 22) as u64;
                    gap -= gap % 4;
                    hkey.push(gap);
                    // P4
                    let mut done = 0;
                    while done < gap {
                        match batch(devs[0].as_mut(), names[0], mode, &mut pos[0], 4, enables, lyc, opi) {
                            Ok((vb, _)) => {
                                if vb {
                                    vblanks += 1;
                                    if let Some(prev) = last_vblank_p4 {
                                        if pos[0] - prev != FRAME {
                                            out.push(Violation::new("C14", format!("C14/frame-period/{}", mode), format!("op {}: VBlank requests at positions {} and {}: {} clocks apart, not 70224", opi, prev, pos[0], pos[0] - prev)));
                                            return out;
                                        }
                                    }
                                    last_vblank_p4 = Some(pos[0]);
                                }
                            }
                            Err(v) => {
                                out.push(v);
                                return out;
                            }
                        }
                        done += 4;
                    }
                    // Pline
                    let mut done = 0;
                    while done < gap {
                        let n = (gap - done).min(456);
                        if let Err(v) = batch(devs[1].as_mut(), names[1], mode, &mut pos[1], n, enables, lyc, opi) {
                            out.push(v);
                            return out;
                        }
                        done += n;
                    }
                    // Prand
                    let mut left = gap;
                    let mut nparts = 0;
                    for j in 1..op.a.len() {
                        let mut p = op.arg(j).clamp(0, 1 << 22) as u64;
                        p -= p % 4;
                        let p = p.min(left);
                        if p == 0 {
                            continue;
                        }
                        hkey.push(p);
                        if let Err(v) = batch(devs[2].as_mut(), names[2], mode, &mut pos[2], p, enables, lyc, opi) {
                            out.push(v);
                            return out;
                        }
                        left -= p;
                        nparts += 1;
                    }
                    if left > 0 {
                        if let Err(v) = batch(devs[2].as_mut(), names[2], mode, &mut pos[2], left, enables, lyc, opi) {
                            out.push(v);
                            return out;
                        }
                    }
                    ctx.cov.add("step.batches", gap / 4 + gap / 456 + nparts + 2);
                    // replicas agree at the common instant
                    let o: Vec<(u8, u8, u8, u8)> = devs.iter_mut().map(|d| d.obs()).collect();
                    if o[0] != o[1] || o[0] != o[2] {
                        out.push(Violation::new("C14", format!("C14/batching-dependent/{}", mode), format!("op {}: (LY, mode, STAT, LYC) P4={:?} Pline={:?} Prand={:?}", opi, o[0], o[1], o[2])));
                        return out;
                    }
                }
                _ => {}
            }
        }
        ctx.cov.add("sim_clocks", pos[0] * 3);
        ctx.cov.add("probe.vblank_requests_seen_on_P4", vblanks);
        if pos[0] >= FRAME {
            let lyc_class = match lyc {
                0 => 0,
                1..=142 => 1,
                143 => 2,
                144 => 3,
                145..=152 => 4,
                153 => 5,
                _ => 6,
            };
            ctx.cov.mark("distinct", (enables as u64) << 48 | (lyc_class as u64) << 40 | (crate::prng::hash_u64s(&hkey) & 0xff_ffff_ffff));
            ctx.cov.mark("enable_lyc_cells", (enables as u64) << 8 | lyc_class as u64);
        }
        ctx.cov.hit(if bus { "mode.bus" } else { "mode.direct" });
        out
    }
}
