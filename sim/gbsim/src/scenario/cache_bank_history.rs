//! C03 — the translation cache is transparent across bank switches.
//! Three replicas run the same history step for step: W (recompiler, cache kept
//! for the whole run), F (recompiler, cache emptied before every step) and I
//! (interpreter-only build). Every switchable bank holds different code at the
//! same entry addresses; histories revisit entries after switching away and back.

use super::{Ctx, Info, Scenario, Violation};
use crate::cart::{patch_key, rom_banks};
use crate::case::Case;
use crate::machine::{Machine, Regs, RUN};
use crate::prng::Rng;
use crate::setup::{replicas, rom_offset};
use crate::sm83;
use std::collections::{BTreeMap, BTreeSet};

pub struct CacheBankHistory;

pub const HUB: u16 = 0x0150;
pub const HANDLER: u16 = 0x0180;
pub const TRAMP_BASE: u16 = 0x0200;
pub const TRAMP_SLOT: u16 = 0x20;
pub const STACK_TOP: u16 = 0xdff0;

fn mix(a: u64, b: u64, c: u64) -> u64 {
    let mut x = a ^ b.wrapping_mul(0x9E37_79B9_7F4A_7C15) ^ c.wrapping_mul(0xD605_0C2B_9A5B_4C11);
    crate::prng::splitmix(&mut x)
}

/// code of entry `e` in bank `b` (distinct per bank); `entries` are the entry addresses
fn entry_code(seed: u64, b: usize, e: usize, entries: &[u16], exact_end: bool) -> Vec<u8> {
    let mut rng = Rng::new(mix(seed, b as u64, e as u64));
    let mut code = vec![0x3e, (mix(seed, b as u64, 0x100 + e as u64) & 0xff) as u8 | 1, 0xea, e as u8, 0xc0, 0x34];
    let nbody = if exact_end { 0 } else { rng.below(6) };
    for _ in 0..nbody {
        code.extend(sm83::safe_instruction(&mut rng));
    }
    let other = entries[rng.below(entries.len() as u64) as usize];
    let hub = [0xc3, HUB as u8, (HUB >> 8) as u8];
    if exact_end {
        code.push(rng.pick(&[0xc9u8, 0xd9])); // RET / RETI; fixed length, so the block starts at the same address in every bank
        return code;
    }
    match rng.below(13) {
        0 | 1 => code.extend(hub),
        2 => code.push(0xc9),
        3 => code.extend([0xc3, other as u8, (other >> 8) as u8]),
        4 => {
            code.extend([0xcd, other as u8, (other >> 8) as u8]);
            code.extend(hub);
        }
        5 => {
            code.extend([rng.pick(&[0x20u8, 0x28, 0x30, 0x38]), 0x03]);
            code.extend(hub);
            code.extend([0xc3, other as u8, (other >> 8) as u8]);
        }
        6 => {
            code.push(rng.pick(&[0xc0u8, 0xc8, 0xd0, 0xd8]));
            code.extend(hub);
        }
        7 => {
            code.push(rng.pick(&[0xc7u8, 0xcf, 0xd7, 0xdf, 0xe7, 0xef, 0xf7, 0xff]));
            code.extend(hub);
        }
        8 => {
            code.push(0xfb);
            code.extend(hub);
        }
        9 => {
            code.push(0xf3);
            code.extend(hub);
        }
        10 => {
            code.push(0x76);
            code.extend(hub);
        }
        11 => code.push(0xd9),
        _ => {
            code.extend([rng.pick(&[0xc2u8, 0xca, 0xd2, 0xda, 0xc4, 0xcc, 0xd4, 0xdc]), other as u8, (other >> 8) as u8]);
            code.extend(hub);
        }
    }
    code
}

fn step(m: &mut dyn Machine) -> Result<(), String> {
    let r = std::panic::catch_unwind(std::panic::AssertUnwindSafe(|| {
        if m.run_state() == RUN {
            m.run_code_block();
        } else {
            m.update();
        }
    }));
    match r {
        Ok(()) => Ok(()),
        Err(_) => Err(crate::driver::panic_class(&crate::driver::take_panic())),
    }
}

fn panic_msg(s: &str) -> String {
    s.split(" @ ").next().unwrap_or("").to_string()
}

impl Scenario for CacheBankHistory {
    fn name(&self) -> &'static str {
        "cache_bank_history"
    }
    fn quick_runs(&self, _f: &str) -> u64 {
        12000
    }
    fn chunk(&self) -> u64 {
        64
    }
    fn death_property(&self, _f: &str) -> Option<&'static str> {
        Some("C03")
    }
    fn info(&self) -> Info {
        Info {
            rule: "one case = one multi-bank cartridge (MBC1/MBC3/ROM-only) in which every switchable bank holds different generated code at the same K entry addresses (incl. 0x4000, reached by falling through from bank 0, and a block ending exactly at 0x7FFF), bank-0 trampolines that write the bank registers as guest code and jump/call an entry, and a seeded history of trampoline dispatches, steps, direct bank-register writes, cache flushes of the warm replica, interrupt-request pokes and joypad events; three replicas (warm cache / cache emptied before every step / interpreter-only build) are stepped in lockstep by Core::run_code_block/update and their full state compared after every step. distinct_nontrivial = distinct (entry address, physical bank, cache age in {cold, hit, hit-after-switch, hit-after-switch-back}) tuples executed",
            components_real: &["Core::run_code_block/update/handle_interrupt (jit and non-jit builds)", "cache::CodeCache + blocks::CacheRegion lookup/insert/translate", "emitter, interpreter, decoder", "cart::MBC1/MBC3 bank state via guest writes", "devices (timer/LCD) running from CPU time"],
            components_stub: &["host window / event loop absent; the simulator chooses which trampoline is dispatched next by setting PC at a step boundary"],
            assumptions: &["generated code in the switchable bank never writes 0x0000-0x7FFF itself (a block that remaps the bank it is running from is the separate known-finding class)", "bank selections reach the banks the cartridge has (reduction is C12's subject)", "stack kept in work RAM and pre-filled with the hub address so stray RETs stay inside the program"],
            fault_kinds: &["flush (warm replica's cache emptied at a drawn step; replica F: before every step)", "bank (guest-code trampolines and direct register writes between steps)", "irq (IF pokes)", "joy (press/release)", "arena (small translation arena via H2)"],
        }
    }

    fn generate(&self, rng: &mut Rng, _index: u64, thorough: bool, case: &mut Case) {
        let cart_type = rng.pick(&[0x01u8, 0x01, 0x03, 0x11, 0x13, 0x11, 0x00]);
        let rom_code: u8 = if cart_type == 0 {
            0
        } else if thorough {
            rng.pick(&[1u8, 2, 3, 4, 5, 6])
        } else {
            // 1 in 12: 128 banks, so that bank numbers need all seven bits of the cache's tag
            rng.pick(&[1u8, 1, 2, 2, 3, 5, 1, 2, 3, 5, 2, 6])
        };
        let banks = rom_banks(rom_code);
        case.set("cart_type", cart_type as i64);
        case.set("rom_code", rom_code as i64);
        case.set("ram_code", 3);
        case.set("rom_fill", 0);
        case.set("fill_byte", 0xc7);
        case.set("ramfill", 1 + rng.below(1 << 30) as i64);
        let lseed = rng.next() >> 1;
        // entry addresses: 0x4000 first, then drawn, last one ends exactly at 0x7fff
        let k = if banks > 32 { 3 } else { rng.range(2, 5) as usize };
        let mut entries: Vec<u16> = vec![0x4000];
        while entries.len() < k {
            let a = 0x4040 + (rng.below(0x3e00) as u16 & !0x3f);
            if !entries.contains(&a) {
                entries.push(a);
            }
        }
        // every other banked case: an entry whose first block remaps the bank it is running from (LD A,v; LD (0x2100),A) - the
        // instruction behind the write is the one the NEWLY mapped bank holds at that address (different in every bank)
        let remap_at: Option<u16> = if cart_type != 0 && rng.chance(1, 2) {
            let mut a = 0x4040 + (rng.below(0x3e00) as u16 & !0x3f);
            while entries.contains(&a) {
                a = 0x4040 + (rng.below(0x3e00) as u16 & !0x3f);
            }
            entries.push(a);
            Some(a)
        } else {
            None
        };
        // bank-0 fixed code
        for v in (0x00u16..0x40).step_by(8) {
            case.blobs.insert(patch_key(v as usize), vec![0xc9]);
        }
        for v in (0x40u16..0x68).step_by(8) {
            case.blobs.insert(patch_key(v as usize), vec![0xc3, HANDLER as u8, (HANDLER >> 8) as u8]);
        }
        case.blobs.insert(patch_key(HUB as usize), vec![0x18, 0xfe]);
        let handler: Vec<u8> = if rng.chance(1, 3) { vec![0xf5, 0xfa, 0x00, 0x40, 0xea, 0xf0, 0xc0, 0xf1, 0xfb, 0xc9] } else { vec![0xf5, 0xfa, 0x00, 0x40, 0xea, 0xf0, 0xc0, 0xf1, 0xd9] };
        case.blobs.insert(patch_key(HANDLER as usize), handler);
        // fall-through block in bank 0 ending exactly at 0x3fff (no terminator)
        {
            let mut code = vec![0x3e, 0x77, 0xea, 0x10, 0xc0];
            for _ in 0..rng.below(3) {
                let ins = sm83::safe_instruction(rng);
                code.extend(ins);
            }
            let start = 0x4000 - code.len();
            case.blobs.insert(patch_key(start), code);
            case.set("lowentry", start as i64);
        }
        // per-bank entry code
        let exact_bank_entry = rng.chance(1, 2);
        for b in 1..banks {
            for (e, &a) in entries.iter().enumerate() {
                if Some(a) == remap_at {
                    let to = 1 + (mix(lseed, b as u64, 0x777) % (banks as u64 - 1)) as u8;
                    let pre = (mix(lseed, 0, 0x778) % 3) as usize; // same in every bank: the continuation must line up
                    let mut code = vec![0x04u8; pre];
                    // mostly the ROM bank register; sometimes the upper-bits / RAM-bank register or the MBC1 mode register, which
                    // remap the window only on large MBC1 cartridges (and not at all on MBC3: then the block simply carries on)
                    let (reg_hi, val): (u8, u8) = match mix(lseed, b as u64, 0x77a) % 10 {
                        0..=5 => (0x21 + (mix(lseed, b as u64, 0x77b) % 0x1f) as u8, to),
                        6..=8 => (0x40 + (mix(lseed, b as u64, 0x77b) % 0x20) as u8, (mix(lseed, b as u64, 0x77c) % 4) as u8),
                        _ => (0x60 + (mix(lseed, b as u64, 0x77b) % 0x20) as u8, (mix(lseed, b as u64, 0x77c) % 2) as u8),
                    };
                    code.extend([0x3e, val, 0xea, 0x00, reg_hi, 0x3e, (mix(lseed, b as u64, 0x779) & 0xff) as u8 | 1, 0xea, 0xe0, 0xc0, 0x34, 0xc3, HUB as u8, (HUB >> 8) as u8]);
                    case.blobs.insert(patch_key(rom_offset(a as usize, b)), code);
                    continue;
                }
                let code = entry_code(lseed, b, e, &entries, false);
                case.blobs.insert(patch_key(rom_offset(a as usize, b)), code);
            }
            if exact_bank_entry {
                let code = entry_code(lseed, b, 15, &entries, true);
                let start = 0x8000 - code.len();
                case.blobs.insert(patch_key(rom_offset(start, b)), code);
            } else {
                case.blobs.insert(patch_key(rom_offset(0x7ffd, b)), vec![0xc3, HUB as u8, (HUB >> 8) as u8]);
            }
        }
        if exact_bank_entry {
            let code = entry_code(lseed, 1, 15, &entries, true);
            entries.push((0x8000 - code.len()) as u16);
        }
        // trampolines
        let ntramp = rng.range(4, 20) as usize;
        let interesting: Vec<u8> = {
            let mut v: Vec<u8> = vec![0, 1, 2, 3, 0x1f, 0x20, 0x21, 0x3f, 0x40, 0x41, 0x60, 0x61, 0x7f, 0x80, 0xff];
            if banks > 64 {
                v.extend([0x40u8 | 1, 0x40 | 2, 0x40 | 5, 0x45, 0x05, 0x42, 0x02, 0x7e, 0x3e]);
            }
            v.push(banks as u8);
            v.push((banks as u8).wrapping_add(1));
            v.push((banks - 1) as u8);
            v
        };
        let mut pair: Option<(u8, u16)> = None;
        for t in 0..ntramp {
            let mut code: Vec<u8> = Vec::new();
            // large MBC3 cartridges: every other trampoline selects the bank 64 away from its predecessor's and enters the same
            // address, so that two banks differing only in bit 6 meet in the cache
            if banks > 64 && cart_type >= 0x11 && t % 2 == 1 {
                if let Some((v, target)) = pair.take() {
                    code.extend([0x3e, v ^ 0x40, 0xea, 0x00, 0x21, 0xc3, target as u8, (target >> 8) as u8]);
                    case.blobs.insert(patch_key((TRAMP_BASE + t as u16 * TRAMP_SLOT) as usize), code);
                    continue;
                }
            }
            let nw = rng.range(1, 3);
            for _ in 0..nw {
                let (reg, val): (u16, u8) = match rng.below(8) {
                    0..=4 => {
                        let mut v = if rng.chance(1, 5) { 1 } else if rng.chance(1, 2) { rng.below(banks as u64) as u8 } else { rng.pick(&interesting) };
                        // a value that maps bank 0 (trampolines, which write bank registers) into the switchable window leads to the
                        // known-finding class; keep it rare so that it does not drown the rest of the search
                        if v as usize % banks == 0 && v != 0 && !rng.chance(1, 3) {
                            v = 1 + rng.below(banks as u64 - 1) as u8;
                        }
                        (0x2000 + rng.below(0x2000) as u16, v)
                    }
                    5 | 6 => (0x4000 + rng.below(0x2000) as u16, rng.below(4) as u8),
                    _ => (0x6000 + rng.below(0x2000) as u16, rng.below(2) as u8),
                };
                code.extend([0x3e, val, 0xea, reg as u8, (reg >> 8) as u8]);
            }
            let target = if rng.chance(1, 6) { case.get("lowentry") as u16 } else { entries[rng.below(entries.len() as u64) as usize] };
            if banks > 64 && cart_type >= 0x11 && target >= 0x4000 {
                let v = 1 + rng.below(62) as u8;
                code = vec![0x3e, v, 0xea, 0x00, 0x21];
                pair = Some((v, target));
            }
            if rng.chance(1, 3) {
                code.extend([0xcd, target as u8, (target >> 8) as u8, 0xc3, HUB as u8, (HUB >> 8) as u8]);
            } else {
                code.extend([0xc3, target as u8, (target >> 8) as u8]);
            }
            case.blobs.insert(patch_key((TRAMP_BASE + t as u16 * TRAMP_SLOT) as usize), code);
        }
        // device set-up
        if rng.chance(1, 2) {
            case.push("w", &[0xff07, rng.pick(&[4i64, 5, 6, 7])]);
            case.push("w", &[0xff06, rng.byte() as i64]);
            case.push("w", &[0xffff, rng.below(32) as i64]);
            if rng.chance(1, 2) {
                case.push("w", &[0xff41, (rng.byte() & 0x78) as i64]);
            }
        }
        if rng.chance(1, 4) {
            case.set("arena", rng.pick(&[0x1000i64, 0x1000, 0x2000, 0x2000, 0x3000, 0x4000, 0x10000]));
        }
        case.set("ime", rng.below(2) as i64);
        // history
        let nops = if thorough { rng.range(10, 120) } else { rng.range(6, 60) };
        let mut recent: Vec<i64> = Vec::new();
        for _ in 0..nops {
            match rng.below(20) {
                0..=9 => {
                    // dispatch a trampoline, biased to revisit recent ones (switch back)
                    let t = if !recent.is_empty() && rng.chance(1, 2) { recent[rng.below(recent.len() as u64) as usize] } else { rng.below(ntramp as u64) as i64 };
                    recent.push(t);
                    if recent.len() > 4 {
                        recent.remove(0);
                    }
                    case.push("t", &[t]);
                    case.push("s", &[rng.range(1, 6)]);
                }
                10 | 11 => case.push("s", &[rng.range(1, 8)]),
                12 | 13 => {
                    let (reg, val): (i64, i64) = match rng.below(4) {
                        0 | 1 => (0x2000 + rng.below(0x2000) as i64, 1 + rng.below(banks as u64 - 1) as i64),
                        2 => (0x4000 + rng.below(0x2000) as i64, rng.below(4) as i64),
                        _ => (0x6000, rng.below(2) as i64),
                    };
                    case.push("b", &[reg, val]);
                    // and go straight to an entry under the new mapping
                    let target = entries[rng.below(entries.len() as u64) as usize];
                    case.push("g", &[target as i64]);
                    case.push("s", &[rng.range(1, 4)]);
                }
                14 => case.push("f", &[]),
                15 | 16 => case.push("q", &[1 << rng.below(5)]),
                17 => case.push("j", &[rng.below(8) as i64, rng.below(2) as i64]),
                18 => case.push("w", &[0xffff, rng.below(32) as i64]),
                _ => case.push("w", &[0xff00, rng.pick(&[0x10i64, 0x20, 0x30, 0x00])]),
            }
        }
    }

    fn run(&self, case: &Case, ctx: &mut Ctx) -> Vec<Violation> {
        let arena = case.get("arena");
        crate::machine::set_arena_size(if arena > 0 { (arena as usize).max(0x1000) } else { 0 });
        let built = replicas(case, &[true, true, false]);
        let (_img, mut reps) = match built {
            Ok(x) => x,
            Err(_) => {
                crate::machine::set_arena_size(0);
                ctx.cov.hit("setup_failed");
                return vec![];
            }
        };
        let nbanks = rom_banks(case.get("rom_code") as u8);
        let mut out = Vec::new();
        // initial state
        for m in reps.iter_mut() {
            let w = m.wram();
            for i in (0x1f00..0x2000).step_by(2) {
                w[i] = HUB as u8;
                w[i + 1] = (HUB >> 8) as u8;
            }
            for i in 0..0x200 {
                w[i] = 0;
            }
            m.set_regs(Regs { af: 0x0100, bc: 0x8013, de: 0x80d8, hl: 0xc100, sp: STACK_TOP as u32, ip: HUB as u32, cycles: 0 });
            m.set_ime(case.get("ime") as u8);
        }
        // shadow of W's cache: arena offset -> guest bytes the translation was made from
        let mut shadow: BTreeMap<(u8, u16, u16), (usize, Vec<u8>)> = BTreeMap::new();
        // (address) -> physical banks it was executed under, and the last one
        let mut visited: BTreeMap<u16, (BTreeSet<usize>, usize)> = BTreeMap::new();
        let mut steps_done = 0u64;
        let mut clocks = 0u64;
        'ops: for (opi, op) in case.ops.iter().enumerate() {
            match op.k {
                "w" | "b" => {
                    let (a, v) = (op.arg(0) as u16, op.arg(1) as u8);
                    for m in reps.iter_mut() {
                        m.write(a, v);
                    }
                    if op.k == "b" {
                        ctx.cov.hit("fault.bank_direct_writes");
                    }
                }
                "t" => {
                    let pc = TRAMP_BASE as u32 + (op.arg(0).clamp(0, 63) as u32) * TRAMP_SLOT as u32;
                    for m in reps.iter_mut() {
                        let mut r = m.regs();
                        r.ip = pc;
                        m.set_regs(r);
                        m.set_run_state(RUN);
                    }
                    ctx.cov.hit("fault.bank_trampoline_dispatches");
                }
                "g" => {
                    let pc = (op.arg(0) & 0x7fff) as u32;
                    for m in reps.iter_mut() {
                        let mut r = m.regs();
                        r.ip = pc;
                        m.set_regs(r);
                        m.set_run_state(RUN);
                    }
                }
                "f" => {
                    if !reps[0].cache_entries().is_empty() {
                        ctx.cov.hit("fault.flush_discarded_entries");
                    }
                    reps[0].flush_cache();
                    shadow.clear();
                }
                "q" => {
                    let bit = (op.arg(0) & 0x1f) as u8;
                    for m in reps.iter_mut() {
                        let f = m.iflag();
                        m.set_iflag(f | bit);
                    }
                    ctx.cov.hit("fault.irq_pokes");
                }
                "j" => {
                    for m in reps.iter_mut() {
                        if op.arg(1) != 0 {
                            m.press(op.arg(0) as u8);
                        } else {
                            m.release(op.arg(0) as u8);
                        }
                    }
                    ctx.cov.hit("fault.joy_events");
                }
                "s" => {
                    for _ in 0..op.arg(0).clamp(0, 64) {
                        steps_done += 1;
                        // pre-step facts about W
                        let pre = reps[0].regs();
                        let pc = pre.ip as u16;
                        let running = reps[0].run_state() == RUN;
                        let pre_bank = reps[0].rom_bank();
                        let entries_before: BTreeMap<(u8, u16, u16), usize> = reps[0].cache_entries().iter().map(|e| ((e.0, e.1, e.2), e.4)).collect();
                        // F: cold cache before every step
                        reps[1].flush_cache();
                        let mut results: Vec<Result<(), String>> = Vec::new();
                        reps[2].trace_start();
                        for m in reps.iter_mut() {
                            results.push(step(m.as_mut()));
                        }
                        // bank-register writes performed by the interpreter replica during this step (a stack that has wandered into
                        // 0x2000-0x7FFF makes every push one)
                        let bank_writes = reps[2].trace_take().iter().filter(|e| e.0 == 1 && e.1 >= 0x2000 && e.1 < 0x8000).count();
                        let _ = crate::capture::take();
                        let n_panicked = results.iter().filter(|r| r.is_err()).count();
                        if n_panicked == 3 {
                            // outside the generator's scope (e.g. execution ran off the end of ROM): only "every replica fails" is compared
                            ctx.cov.hit("all_replicas_panicked_alike");
                            ctx.cov.hit(&format!("all_panicked.{}", panic_msg(results[2].as_ref().err().unwrap())));
                            break 'ops;
                        }
                        // a block in the switchable window that remapped the bank it was running from (probe; the defect behind it is repaired)
                        let self_switch = running && pc >= 0x4000 && case.get("cart_type") != 0 && (reps[2].rom_bank() != pre_bank || bank_writes >= 2);
                        if self_switch {
                            ctx.cov.hit("probe.block_remapped_its_own_bank");
                        }
                        if n_panicked > 0 && arena > 0 && results.iter().any(|r| r.as_ref().err().map(|m| m.contains("does not fit")).unwrap_or(false)) {
                            // artefact of the reduced arena (H2): one block larger than the whole arena; cannot happen with the production size
                            ctx.cov.hit("probe.block_larger_than_reduced_arena");
                            break 'ops;
                        }
                        if n_panicked > 0 {
                            let who: Vec<&str> = results.iter().zip(["W", "F", "I"]).filter(|(r, _)| r.is_err()).map(|(_, n)| n).collect();
                            let msg = results.iter().find_map(|r| r.as_ref().err()).unwrap().clone();
                            let exhausted = arena > 0 && results[2].is_ok() && (msg.contains("src/emitter") || msg.contains("src/cache"));
                            let sig = if exhausted { "C03/translation-arena-exhausted".to_string() } else { format!("C03/only-some-replicas-panicked/{}/{}", who.join("+"), panic_msg(&msg)) };
                            out.push(Violation::new("C03", sig, format!("op {} step {} (pc {:#06x}, bank {}): replica(s) {} panicked: {}", opi, steps_done, pc, pre_bank, who.join("+"), msg)));
                            break 'ops;
                        }
                        // white-box: a hit must be a translation of the bytes mapped now
                        if running && pc < 0x8000 {
                            let now: Vec<(u8, u16, u16, usize, usize, usize)> = reps[0].cache_entries();
                            let created: Vec<&(u8, u16, u16, usize, usize, usize)> = now.iter().filter(|e| entries_before.get(&(e.0, e.1, e.2)) != Some(&e.4)).collect();
                            // the cache may have been emptied and refilled (arena full): forget what is no longer cached
                            let live: BTreeMap<(u8, u16, u16), usize> = now.iter().map(|e| ((e.0, e.1, e.2), e.4)).collect();
                            if live.len() < entries_before.len() {
                                ctx.cov.hit("probe.warm_cache_emptied_because_arena_full");
                            }
                            shadow.retain(|k, v| live.get(k) == Some(&v.0));
                            let mapped = |m: &dyn Machine, addr: u16, len: usize, bank: usize| -> Vec<u8> {
                                let rom = m.rom();
                                (0..len)
                                    .map(|i| {
                                        let a = addr as usize + i;
                                        let off = rom_offset(a & 0x7fff, bank);
                                        rom.get(off).copied().unwrap_or(0)
                                    })
                                    .collect()
                            };
                            let age: u64;
                            if created.is_empty() {
                                // cache hit: some recorded translation for this address must match what is mapped
                                let cands: Vec<&Vec<u8>> = shadow.iter().filter(|(k, _)| k.2 == pc).map(|(_, v)| &v.1).collect();
                                let fresh = cands.iter().any(|s| &mapped(reps[0].as_ref(), pc, s.len(), pre_bank) == *s);
                                ctx.cov.hit("probe.warm_cache_hits");
                                if !cands.is_empty() && !fresh {
                                    out.push(Violation::new(
                                        "C03",
                                        "C03/stale-hit".to_string(),
                                        format!("op {} step {}: cache hit at pc {:#06x} under ROM bank {}, but every cached translation for that address was made from other bytes (e.g. {:02x?} vs mapped {:02x?})", opi, steps_done, pc, pre_bank, &cands[0][..cands[0].len().min(8)], &mapped(reps[0].as_ref(), pc, cands[0].len().min(8), pre_bank)),
                                    ));
                                    break 'ops;
                                }
                                let v = visited.get(&pc);
                                age = match v {
                                    Some((set, last)) if pc >= 0x4000 && *last != pre_bank && set.contains(&pre_bank) => 3,
                                    Some((_, last)) if pc >= 0x4000 && *last != pre_bank => 2,
                                    _ => 1,
                                };
                            } else {
                                for e in created {
                                    shadow.insert((e.0, e.1, e.2), (e.4, mapped(reps[0].as_ref(), e.2, e.3, pre_bank)));
                                    if e.2 < 0x4000 && e.2 as usize + e.3 > 0x4000 {
                                        ctx.cov.hit("probe.low_block_reaching_into_switchable_bank");
                                    }
                                }
                                age = 0;
                            }
                            if pc >= 0x4000 {
                                let ent = visited.entry(pc).or_insert((BTreeSet::new(), pre_bank));
                                if !ent.0.is_empty() && ent.1 != pre_bank {
                                    ctx.cov.hit("probe.revisit_after_switch");
                                    if ent.0.contains(&pre_bank) {
                                        ctx.cov.hit("probe.revisit_after_switch_back");
                                    }
                                }
                                ent.0.insert(pre_bank);
                                ent.1 = pre_bank;
                            }
                            ctx.cov.mark("distinct", (pc as u64) << 16 | (pre_bank as u64 % nbanks as u64) << 4 | age);
                            ctx.cov.mark("cache_ages", age);
                        }
                        // lockstep comparison
                        let sw = reps[0].snap(true);
                        let sf = reps[1].snap(true);
                        let si = reps[2].snap(true);
                        clocks += 4 * si.get("last_block_cycles").max(1);
                        if let Some(field) = sw.diff_field(&si, &[]) {
                            out.push(Violation::new(
                                "C03",
                                format!("C03/diverged/warm-vs-interpreter/{}", field),
                                format!("op {} step {} (block at pc {:#06x}, ROM bank {}): warm-cache replica vs interpreter: {}", opi, steps_done, pc, pre_bank, sw.diff(&si, &[]).unwrap()),
                            ));
                            break 'ops;
                        }
                        if let Some(field) = sf.diff_field(&si, &[]) {
                            out.push(Violation::new(
                                "C03",
                                format!("C03/diverged/flushed-vs-interpreter/{}", field),
                                format!("op {} step {} (block at pc {:#06x}, ROM bank {}): cold-cache replica vs interpreter: {}", opi, steps_done, pc, pre_bank, sf.diff(&si, &[]).unwrap()),
                            ));
                            break 'ops;
                        }
                    }
                }
                _ => {}
            }
        }
        crate::machine::set_arena_size(0);
        ctx.cov.add("steps", steps_done);
        ctx.cov.add("sim_clocks", clocks * 3);
        ctx.cov.mark("cart_types", case.get("cart_type") as u64);
        out
    }
}
