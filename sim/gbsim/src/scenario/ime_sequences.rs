//! C08 — EI delay, DI/RETI immediacy, HALT/STOP suspension: instruction-stepped
//! cores run generated sequences over {EI, DI, RETI, RET, HALT, STOP, NOP,
//! "raise a request", "write IE"} with external IF pokes and joypad events at
//! step boundaries; compared after every step with RefIme/RefIntc/RefBus.

use super::irq_dispatch::compare;
use super::{Ctx, Info, Scenario, Violation};
use crate::cart::patch_key;
use crate::case::Case;
use crate::machine::Regs;
use crate::model::bus::RefBus;
use crate::model::ime::{Ins, RefIme};
use crate::model::intc::Outcome;
use crate::prng::Rng;
use crate::setup::{model_of, replicas};

pub struct ImeSequences;

const MAIN: u16 = 0x0150;
const LANDING: u16 = 0x0300;
const SP0: u16 = 0xdfe0;

fn draw_piece(rng: &mut Rng, in_vector: bool) -> Vec<u8> {
    match rng.below(if in_vector { 10 } else { 16 }) {
        0 | 1 => vec![0xfb],
        2 => vec![0xf3],
        3 | 4 => vec![0x00],
        5 | 6 => vec![0x3e, rng.below(32) as u8, 0xea, 0x0f, 0xff],
        7 => vec![0x3e, rng.pick(&[0u8, 0x1f, 0x01, 0x04, 0x10, 0x15, 0xff]), 0xe0, 0xff],
        8 | 9 => vec![0x00, 0x00],
        10 | 11 => vec![0x76],
        12 => vec![0x10, 0x00],
        13 => vec![0xd9],
        14 => vec![0x3e, 0x00, 0xea, 0x0f, 0xff, 0x76], // clear IF; HALT
        _ => vec![0xfb, 0x76],                            // EI; HALT
    }
}

fn ins_code(i: Ins) -> u64 {
    match i {
        Ins::Nop => 0,
        Ins::Ei => 1,
        Ins::Di => 2,
        Ins::Reti => 3,
        Ins::Ret => 4,
        Ins::Halt => 5,
        Ins::Stop => 6,
        Ins::LdAImm => 7,
        Ins::StoreA16 => 8,
        Ins::StoreHigh => 9,
        Ins::Jr => 10,
        Ins::Idle => 11,
        Ins::Unknown(_) => 12,
    }
}

fn init_model(bus: &mut RefBus) {
    // stack area: every word returns to the landing loop
    for i in (0x1f00..0x2000).step_by(2) {
        bus.wram[i] = LANDING as u8;
        bus.wram[i + 1] = (LANDING >> 8) as u8;
    }
}

impl Scenario for ImeSequences {
    fn name(&self) -> &'static str {
        "ime_sequences"
    }
    fn quick_runs(&self, _f: &str) -> u64 {
        120000
    }
    fn chunk(&self) -> u64 {
        500
    }
    fn death_property(&self, _f: &str) -> Option<&'static str> {
        Some("C08")
    }
    fn info(&self) -> Info {
        Info {
            rule: "one case = a ROM whose main routine and five interrupt vectors are drawn sequences over {EI, DI, RETI, RET, HALT, STOP 0, NOP, LD A,n; LD (0xFF0F),A (raise requests), LD A,n; LDH (0xFF),A (write IE)}, an initial (master enable in {off, on, enable-pending}, run state, IF, IE), and a schedule of external events (IF pokes, joypad presses with P1 selected) delivered at step boundaries, biased to the step after EI, to halted/stopped periods and to the step after DI/RETI; executed one instruction at a time by Core::update() of the non-jit build or run_interp()/update() of the jit build; after every step master enable, run state, PC, SP, IF, IE, undelivered cycles and all RAM are compared with RefIme + RefIntc + RefBus. A run ends when HALT/STOP is executed with an enabled request already pending (outside the quantifier). distinct_nontrivial = distinct (master enable before, run state before, instruction, request pending?, event delivered before the step?, outcome) transition tuples",
            components_real: &["Core::update / Core::run_interp (EnableNext promotion, status -> IME/run-state mapping, halted path)", "Core::handle_interrupt", "interpreter::run_next_op for the alphabet's instructions", "IF/IE registers, joypad -> IF path via IO::run_clock_cycles"],
            components_stub: &["host event loop replaced by the simulator's event schedule"],
            assumptions: &["HALT/STOP executed while an enabled request is pending is not modelled (run ends there)", "instruction cycle counts of the alphabet (NOP/EI/DI/HALT/STOP 1, LD A,n 2, LDH 3, LD (a16),A / RET / RETI 4, JR 3) as documented for the SM83"],
            fault_kinds: &["irq (IF pokes at step boundaries)", "joy (press events)"],
        }
    }

    fn generate(&self, rng: &mut Rng, _index: u64, thorough: bool, case: &mut Case) {
        case.set("cart_type", 0);
        case.set("rom_code", 0);
        case.set("ram_code", 3);
        case.set("rom_fill", 0);
        case.set("ramfill", 0);
        case.set("jit", rng.below(2) as i64);
        let mut rom = vec![0u8; 0x8000];
        // main
        let mut main: Vec<u8> = Vec::new();
        let n = rng.range(2, if thorough { 30 } else { 12 });
        for _ in 0..n {
            main.extend(draw_piece(rng, false));
        }
        main.extend([0x18, 0xfe]);
        case.blobs.insert(patch_key(MAIN as usize), main.clone());
        rom[MAIN as usize..MAIN as usize + main.len()].copy_from_slice(&main);
        let landing = vec![0x00, 0x00, 0x00, 0x18, 0xfe];
        case.blobs.insert(patch_key(LANDING as usize), landing.clone());
        rom[LANDING as usize..LANDING as usize + landing.len()].copy_from_slice(&landing);
        for v in 0..5u16 {
            let mut code: Vec<u8> = Vec::new();
            loop {
                let p = draw_piece(rng, true);
                if code.len() + p.len() > 5 || rng.chance(1, 3) {
                    break;
                }
                code.extend(p);
            }
            match rng.below(4) {
                0 | 1 => code.push(0xd9),
                2 => code.push(0xc9),
                _ => code.extend([0xfb, 0xc9]),
            }
            let at = 0x40 + 8 * v as usize;
            case.blobs.insert(patch_key(at), code.clone());
            rom[at..at + code.len()].copy_from_slice(&code);
        }
        // initial state
        let ime0 = rng.below(3) as i64;
        let rs0 = if rng.chance(1, 4) { rng.range(1, 2) } else { 0 };
        let ie0 = rng.pick(&[0x1fi64, 0x1f, 0x00, 0x15, 0x04, 0x10, 0x01]);
        let if0 = if rng.chance(1, 3) { rng.below(32) as i64 } else { 0 };
        case.push("w", &[0xffff, ie0]);
        case.push("w", &[0xff0f, if0]);
        case.push("w", &[0xff00, rng.pick(&[0x10i64, 0x20, 0x00, 0x30])]);
        case.push("ime", &[ime0]);
        case.push("rs", &[rs0]);
        // schedule: simulate the reference to know the context of every step boundary
        let mut bus = RefBus::new(rom, 0, 2, crate::cart::ram_bytes(3));
        init_model(&mut bus);
        bus.write(0xffff, ie0 as u8);
        bus.write(0xff0f, if0 as u8);
        // one case in five starts with the stack at the top of the address space, so that the pushes of a dispatch land on IE
        // (0xFFFF) and may cancel it: the master enable is spent all the same
        let sp0 = if rng.chance(1, 5) { rng.pick(&[0x0000i64, 0x0001]) } else { SP0 as i64 };
        case.set("sp0", sp0);
        let mut model = RefIme::new(MAIN, sp0 as u16, ime0 as u8, rs0 as u8);
        let max_steps = 4 * n as usize + 30;
        let mut last = Ins::Nop;
        let mut idle_run = 0;
        for _ in 0..max_steps {
            // event before this step?
            let num = if model.cpu.ime == 2 {
                10
            } else if model.cpu.run_state != 0 {
                if idle_run > 6 { 12 } else { 5 }
            } else if matches!(last, Ins::Di | Ins::Reti) {
                8
            } else {
                2
            };
            if rng.chance(num, 20) {
                if rng.chance(1, 4) {
                    let b = rng.below(8) as u8;
                    case.push("j", &[b as i64, 1]);
                    bus.joy.press(b);
                    if rng.chance(1, 2) {
                        case.push("j", &[b as i64, 0]);
                        bus.joy.release(b);
                    }
                } else {
                    let bits = 1u8 << rng.below(5);
                    case.push("q", &[bits as i64]);
                    bus.iflag |= bits;
                }
            }
            case.push("u", &[]);
            let info = model.step(&mut bus);
            last = info.ins;
            idle_run = if info.ins == Ins::Idle { idle_run + 1 } else { 0 };
            if matches!(info.ins, Ins::Unknown(_)) || info.halt_with_pending {
                break;
            }
        }
    }

    fn run(&self, case: &Case, ctx: &mut Ctx) -> Vec<Violation> {
        let jit = case.get("jit") != 0;
        let (_img, mut reps) = match replicas(case, &[jit]) {
            Ok(x) => x,
            Err(_) => return vec![],
        };
        let m = reps[0].as_mut();
        let mut bus = model_of(case, m);
        init_model(&mut bus);
        m.wram().copy_from_slice(&bus.wram);
        let sp0 = (case.get_or("sp0", SP0 as i64) & 0xffff) as u16;
        if sp0 != SP0 {
            ctx.cov.hit("probe.cases_with_the_stack_on_ie");
        }
        m.set_regs(Regs { af: 0, bc: 0, de: 0, hl: 0, sp: sp0 as u32, ip: MAIN as u32, cycles: 0 });
        let mut model = RefIme::new(MAIN, sp0, 0, 0);
        let mut out = Vec::new();
        let mut event_pending = false;
        let mut clocks = 0u64;
        let mut prev_ins: Option<Ins> = None;
        for (opi, op) in case.ops.iter().enumerate() {
            match op.k {
                "w" => {
                    let (a, v) = (op.arg(0) as u16, op.arg(1) as u8);
                    if a < 0x8000 {
                        continue;
                    }
                    m.write(a, v);
                    bus.write(a, v);
                }
                "ime" => {
                    model.cpu.ime = op.arg(0).clamp(0, 2) as u8;
                    m.set_ime(model.cpu.ime);
                }
                "rs" => {
                    model.cpu.run_state = op.arg(0).clamp(0, 2) as u8;
                    m.set_run_state(model.cpu.run_state);
                }
                "q" => {
                    let bits = (op.arg(0) & 0x1f) as u8;
                    let f = m.iflag();
                    m.set_iflag(f | bits);
                    bus.iflag |= bits;
                    event_pending = true;
                    ctx.cov.hit(if model.cpu.ime == 2 { "fault.irq_poke_in_ei_shadow" } else if model.cpu.run_state != 0 { "fault.irq_poke_while_halted" } else { "fault.irq_poke" });
                }
                "j" => {
                    let b = op.arg(0) as u8 & 7;
                    if op.arg(1) != 0 {
                        m.press(b);
                        bus.joy.press(b);
                    } else {
                        m.release(b);
                        bus.joy.release(b);
                    }
                    event_pending = true;
                    ctx.cov.hit("fault.joy_events");
                }
                "u" => {
                    let before = (model.cpu.ime, model.cpu.run_state, bus.iflag & bus.ie & 0x1f != 0);
                    let pc_before = model.cpu.pc;
                    let info = model.step(&mut bus);
                    if let Ins::Unknown(_) = info.ins {
                        ctx.cov.hit("run_ended_outside_alphabet");
                        break;
                    }
                    let running = before.1 == 0;
                    let res = std::panic::catch_unwind(std::panic::AssertUnwindSafe(|| {
                        if jit && running {
                            m.run_interp()
                        } else {
                            m.update()
                        }
                    }));
                    let _ = crate::capture::take();
                    if res.is_err() {
                        let msg = crate::driver::take_panic();
                        out.push(Violation::new("C08", "C08/panic".to_string(), format!("op {}: step panicked: {}", opi, msg)));
                        return out;
                    }
                    clocks += 4;
                    if info.halt_with_pending {
                        ctx.cov.hit("run_ended_halt_with_request_pending");
                        break;
                    }
                    let what = format!("op {}: {:?} at {:#06x} from (IME {}, run state {}, enabled request pending {}) expecting {:?}", opi, info.ins, pc_before, before.0, before.1, before.2, info.outcome);
                    let path = match info.ins {
                        Ins::Ei => "ei",
                        Ins::Di => "di",
                        Ins::Reti => "reti",
                        Ins::Halt => "halt",
                        Ins::Stop => "stop",
                        Ins::Idle => "suspended",
                        _ => "other",
                    };
                    if let Some(v) = compare("C08", m, &model.cpu, &mut bus, info.alt_if, path, &what) {
                        out.push(v);
                        return out;
                    }
                    let oc = match info.outcome {
                        Outcome::Nothing => 0u64,
                        Outcome::WokeOnly => 1,
                        Outcome::Dispatched { .. } => 2,
                        Outcome::Cancelled => 3,
                    };
                    if before.0 == 2 && matches!(info.outcome, Outcome::Dispatched { .. }) {
                        ctx.cov.hit("probe.dispatch_right_after_the_instruction_following_ei");
                    }
                    if before.1 != 0 && oc == 1 {
                        ctx.cov.hit("probe.woke_without_dispatch");
                    }
                    if before.1 != 0 && oc == 2 {
                        ctx.cov.hit("probe.woke_into_handler");
                    }
                    // consecutive-instruction pairs (EI;DI, EI;EI, EI;RETI, DI in the EI shadow, HALT entered while enable-pending ...)
                    if let Some(p) = prev_ins {
                        ctx.cov.mark("instruction_pairs", ins_code(p) << 8 | ins_code(info.ins));
                        let name = match (p, info.ins) {
                            (Ins::Ei, Ins::Di) => Some("probe.pair_ei_di"),
                            (Ins::Ei, Ins::Ei) => Some("probe.pair_ei_ei"),
                            (Ins::Ei, Ins::Reti) => Some("probe.pair_ei_reti"),
                            (Ins::Ei, Ins::Halt) => Some("probe.pair_ei_halt"),
                            (Ins::Ei, Ins::Stop) => Some("probe.pair_ei_stop"),
                            (Ins::Di, Ins::Halt) => Some("probe.pair_di_halt"),
                            _ => None,
                        };
                        if let Some(n) = name {
                            ctx.cov.hit(n);
                        }
                    }
                    prev_ins = Some(info.ins);
                    ctx.cov.mark("distinct", (before.0 as u64) << 20 | (before.1 as u64) << 16 | ins_code(info.ins) << 8 | (before.2 as u64) << 5 | (event_pending as u64) << 4 | oc);
                    event_pending = false;
                }
                _ => {}
            }
        }
        ctx.cov.add("sim_clocks", clocks);
        out
    }
}
