//! C19 — ROM file validation and sizing under file faults. The real executable
//! loads a simulator-written cartridge file that was damaged in a drawn way
//! (short, truncated, torn, header bit flips, checksum byte, declared size vs
//! actual, unsupported type, bad path) and must reject it at load or run it
//! with the sizes the header tables give — never fault. The header decoding
//! functions are also compared in process with RefHeader.

use super::{Ctx, Info, Scenario, Violation};
use crate::cart::MemFile;
use crate::case::Case;
use crate::model::header as refh;
use crate::model::mbc::RefMbc;
use crate::prng::Rng;
use std::io::Read;
use std::os::unix::process::ExitStatusExt;

pub struct RomLoadFaults;

const F_NONE: i64 = 0;
const F_LENGTH: i64 = 1;
const F_TORN: i64 = 2;
const F_BITFLIP: i64 = 3;
const F_CHECKSUM_BYTE: i64 = 4;
const F_COMPENSATED: i64 = 5;
const F_DECLARED_BIGGER: i64 = 6;
const F_TYPE: i64 = 7;
const F_PATH: i64 = 8;
const F_SIZE_CODES: i64 = 9;
const FAULT_NAMES: [&str; 10] = ["none", "length", "torn-write", "header-bit-flip", "checksum-byte", "compensated-change", "declared-size-larger-than-file", "type-byte", "path", "size-code"];

fn kind_of(t: u8) -> u8 {
    crate::model::mbc::kind_of(t)
}

/// boot stub at 0x0150 and the bytes it must emit over serial on a correctly sized, intact cartridge
fn stub(cart_type: u8, banks: usize, ram: usize) -> (Vec<u8>, Vec<(u16, u8)>) {
    let mut c: Vec<u8> = vec![0x31, 0xf0, 0xdf];
    let mut writes: Vec<(u16, u8)> = Vec::new();
    let last = banks.saturating_sub(1);
    match kind_of(cart_type) {
        1 => {
            let l = (last & 0x7f) as u8;
            c.extend([0x3e, l & 0x1f, 0xea, 0x00, 0x20, 0x3e, l >> 5, 0xea, 0x00, 0x40]);
            writes.push((0x2000, l & 0x1f));
            writes.push((0x4000, l >> 5));
        }
        3 => {
            let l = (last & 0x7f) as u8;
            c.extend([0x3e, l, 0xea, 0x00, 0x20]);
            writes.push((0x2000, l));
        }
        _ => {}
    }
    c.extend([0xfa, 0xfe, 0x7f, 0xe0, 0x01, 0x3e, 0x81, 0xe0, 0x02]);
    if ram > 0 {
        c.extend([0x3e, 0x0a, 0xea, 0x00, 0x00]);
        let rb = ((ram / 0x2000).max(1) - 1).min(3) as u8;
        match kind_of(cart_type) {
            1 => c.extend([0x3e, 0x01, 0xea, 0x00, 0x60, 0x3e, rb, 0xea, 0x00, 0x40]),
            3 => c.extend([0x3e, rb, 0xea, 0x00, 0x40]),
            _ => {}
        }
        let addr = 0xa000 + ram.min(0x2000) as u16 - 1;
        c.extend([0x3e, 0x5a, 0xea, addr as u8, (addr >> 8) as u8, 0x3e, 0x00, 0xfa, addr as u8, (addr >> 8) as u8, 0xe0, 0x01, 0x3e, 0x81, 0xe0, 0x02]);
    }
    c.extend([0x3e, 0x4f, 0xe0, 0x01, 0x3e, 0x81, 0xe0, 0x02, 0x3e, 0x4b, 0xe0, 0x01, 0x3e, 0x81, 0xe0, 0x02, 0x18, 0xfe]);
    (c, writes)
}

struct Built {
    /// (offset, bytes) regions of the intended (undamaged) image
    header: Vec<u8>,
    stub: Vec<u8>,
    declared_len: usize,
    file_len: usize,
}

fn header_of(case: &Case) -> Vec<u8> {
    let mut h = vec![0u8; 0x50];
    h[0] = 0x00;
    h[1] = 0xc3;
    h[2] = 0x50;
    h[3] = 0x01;
    let title = case.blob("title");
    for i in 0..11.min(title.len()) {
        h[0x34 + i] = title[i];
    }
    let extra = case.blob("extra"); // manufacturer .. licensee etc (0x13f..0x147), dest/licensee/version (0x14a..0x14d)
    for i in 0..8.min(extra.len()) {
        h[0x3f + i] = extra[i];
    }
    for i in 0..3 {
        if 8 + i < extra.len() {
            h[0x4a + i] = extra[8 + i];
        }
    }
    h[0x47] = case.get("type") as u8;
    h[0x48] = case.get("romc") as u8;
    h[0x49] = case.get("ramc") as u8;
    h[0x4d] = refh::checksum(&h[0x34..0x4d]);
    h
}

/// Write the (damaged) file; returns what was built and the final bytes of the first 0x150 + the byte the stub reads
fn write_file(case: &Case, path: &std::path::Path) -> Option<Built> {
    let fault = case.get("fault");
    let (arg, arg2) = (case.get("arg"), case.get("arg2"));
    let mut h = header_of(case);
    let declared = refh::rom_bytes(case.get("romc") as u8).unwrap_or(0x8000);
    let ram = refh::ram_bytes(case.get("ramc") as u8).unwrap_or(0);
    let (st, _) = stub(case.get("type") as u8, declared / 0x4000, ram);
    match fault {
        F_BITFLIP => {
            let off = (arg.clamp(0x134, 0x14d) - 0x100) as usize;
            h[off] ^= 1 << (arg2 & 7);
        }
        F_CHECKSUM_BYTE => h[0x4d] = arg as u8,
        F_COMPENSATED => {
            // two bytes of the title moved in opposite directions: checksum unchanged
            let d = (arg2 as u8).max(1);
            h[0x34] = h[0x34].wrapping_add(d);
            h[0x35] = h[0x35].wrapping_sub(d);
        }
        _ => {}
    }
    let mut file_len = declared;
    if fault == F_LENGTH {
        file_len = arg.max(0) as usize;
    }
    if fault == F_DECLARED_BIGGER {
        // the file holds a smaller cartridge than the header declares
        file_len = refh::rom_bytes(arg as u8).unwrap_or(0x8000).min(declared);
    }
    let f = std::fs::OpenOptions::new().create(true).write(true).truncate(true).open(path).ok()?;
    use std::os::unix::io::AsRawFd;
    let mf = MemFile { fd: unsafe { libc::dup(f.as_raw_fd()) } };
    mf.set_len(file_len);
    let mut put = |off: usize, data: &[u8]| {
        if off >= file_len {
            return;
        }
        let n = data.len().min(file_len - off);
        mf.pwrite(off, &data[..n]);
    };
    // bank ids
    for b in 0..(declared / 0x4000) {
        put(b * 0x4000 + 0x3ffe, &[(b & 0xff) as u8, (b >> 8) as u8]);
    }
    put(0x100, &h);
    put(0x150, &st);
    if fault == F_TORN {
        // correct prefix of length k, then a constant fill up to the declared length
        let k = arg.max(0) as usize;
        let fill = vec![arg2 as u8; 0x10000];
        let mut off = k;
        while off < file_len {
            let n = fill.len().min(file_len - off);
            mf.pwrite(off, &fill[..n]);
            off += n;
        }
    }
    Some(Built { header: h, stub: st, declared_len: declared, file_len })
}

fn bin_path(jit: bool) -> std::path::PathBuf {
    crate::driver::root().join("target").join(if jit { "repo-bin-jit" } else { "repo-bin-int" }).join("release").join("gb-dynarec")
}

impl Scenario for RomLoadFaults {
    fn name(&self) -> &'static str {
        "rom_load_faults"
    }
    fn quick_runs(&self, _f: &str) -> u64 {
        3600
    }
    fn chunk(&self) -> u64 {
        100
    }
    fn death_property(&self, _f: &str) -> Option<&'static str> {
        Some("C19")
    }
    fn info(&self) -> Info {
        Info {
            rule: "one case = a generated cartridge file (random title/licensee bytes, type, ROM/RAM size codes, valid checksum, every 16 KiB bank carrying its index, a boot stub that selects the last declared ROM bank and sends its index byte, a write/read-back of the last byte of the last declared RAM bank, and 'OK' over the serial port) damaged by one file fault: length (0, 1, 0xFF..0x150, declared-4097..+1, random prefixes), torn write (correct prefix then zeros/0xFF), single-bit flips in each checksummed byte and the checksum byte, checksum byte over all 256 values (round-robin), compensating double change, header declaring a larger ROM than the file holds, type byte over all 256 values (round-robin), size codes outside the tables, bad paths; the real executable (jit / non-jit build alternately) loads it with an update budget and its exit status, stdout and stderr are classified as rejected (the stub never ran) / controlled termination at load / accepted (the stub's size-revealing bytes at the end of stdout) / fault (signal, or a panic raised from mem.rs, interpreter or cache after execution began), and compared with what RefHeader admits. 1 case in 4 also compares Header::valid_checksum/get_rom_size_bytes/get_ram_size_bytes/create_cart_state in process. distinct_nontrivial = distinct (fault kind, argument class, type, size codes, outcome class)",
            components_real: &["the real executable: main.rs::load_rom, system::open_rom_file/read_header/get_rom_buffer, map_rom_file (mmap), Header::*, MemoryAreas::with_rom_file, headless shell", "cart::Header methods in process (non-jit shadow crate)"],
            components_stub: &["file system = regular files written by the simulator under /verif/work", "run length bounded by the H4 update budget"],
            assumptions: &["size codes outside the header tables: only 'no fault' is asserted", "torn writes keep the boot stub intact (prefix >= 0x200) or destroy the header (prefix < 0x14E): a file whose header is valid but whose code is garbage is accepted by definition and what it executes is not this property's subject", "MBC1/MBC3 can address at most 128 banks: for larger declared sizes the stub selects bank (count-1) & 0x7F"],
            fault_kinds: &["file: length", "file: torn write", "file: header bit flip", "file: checksum byte", "file: compensated change", "file: declared size larger than file", "file: type byte", "file: size codes outside the tables", "file: path"],
        }
    }

    fn generate(&self, rng: &mut Rng, index: u64, _thorough: bool, case: &mut Case) {
        let mut title: Vec<u8> = Vec::new();
        for _ in 0..rng.range(1, 11) {
            title.push(rng.pick(b"ABCDEFGHIJKLMNOPQRSTUVWXYZ0123456789 -"));
        }
        while title.len() < 11 {
            title.push(0);
        }
        case.blobs.insert("title".to_string(), title);
        let mut extra = Vec::new();
        for _ in 0..11 {
            extra.push(rng.byte());
        }
        case.blobs.insert("extra".to_string(), extra);
        let t = rng.pick(&crate::cart::CART_TYPES);
        let romc = rng.pick(&[0u8, 0, 1, 1, 2, 3, 4, 5, 6, 7, 8, 0x52, 0x53, 0x54]);
        let ramc = rng.pick(&crate::cart::RAM_CODES);
        case.set("type", t as i64);
        case.set("romc", romc as i64);
        case.set("ramc", ramc as i64);
        case.set("jit", (index % 2) as i64);
        case.set("inproc", (index % 4 == 1) as i64);
        let declared = refh::rom_bytes(romc).unwrap() as i64;
        let fault = match index % 12 {
            0 => F_NONE,
            1 | 2 => F_LENGTH,
            3 => F_TORN,
            4 => F_BITFLIP,
            5 => F_CHECKSUM_BYTE,
            6 => F_COMPENSATED,
            7 | 8 => F_DECLARED_BIGGER,
            9 => F_TYPE,
            10 => F_SIZE_CODES,
            _ => {
                if rng.chance(1, 3) {
                    F_PATH
                } else {
                    F_LENGTH
                }
            }
        };
        case.set("fault", fault);
        match fault {
            F_LENGTH => {
                let len = match rng.below(8) {
                    0 => rng.pick(&[0i64, 1, 0xff, 0x100, 0x101, 0x134, 0x14c, 0x14d, 0x14e, 0x14f, 0x150, 0x151]),
                    1 | 2 => declared + rng.pick(&[-4097i64, -4096, -4095, -1, 1, -0x4000, -0x3fff]),
                    3 => rng.below(declared as u64) as i64,
                    4 => rng.below(0x8000) as i64,
                    5 => declared - 0x4000 * rng.range(1, (declared / 0x4000).max(2) - 1),
                    6 => declared + 4096,
                    _ => 0x150 + rng.below(0x100) as i64,
                };
                case.set("arg", len.max(0));
            }
            F_TORN => {
                let k = if rng.chance(1, 2) { rng.below(0x14e) as i64 } else { 0x200 + rng.below((declared - 0x200) as u64) as i64 };
                case.set("arg", k);
                case.set("arg2", rng.pick(&[0x00i64, 0xff]));
            }
            F_BITFLIP => {
                case.set("arg", 0x134 + ((index / 12) % 26) as i64);
                case.set("arg2", rng.below(8) as i64);
            }
            F_CHECKSUM_BYTE => case.set("arg", ((index / 12) % 256) as i64),
            F_COMPENSATED => case.set("arg2", rng.range(1, 255)),
            F_DECLARED_BIGGER => {
                // raise the declared size against an unchanged (smaller) file
                let smaller: Vec<u8> = [0u8, 1, 2, 3, 4, 5, 6, 7, 8].iter().copied().filter(|c| refh::rom_bytes(*c).unwrap() < declared as usize).collect();
                if smaller.is_empty() {
                    case.set("romc", 1);
                    case.set("arg", 0);
                } else {
                    case.set("arg", rng.pick(&smaller) as i64);
                }
            }
            F_TYPE => case.set("type", ((index / 12) % 256) as i64),
            F_SIZE_CODES => {
                if rng.chance(1, 2) {
                    case.set("romc", rng.pick(&[9i64, 0x0a, 0x10, 0x51, 0x55, 0x80, 0xff]));
                } else {
                    case.set("ramc", rng.pick(&[6i64, 7, 8, 0x10, 0x80, 0xff]));
                }
            }
            F_PATH => case.set("arg", rng.below(3) as i64),
            _ => {}
        }
    }

    fn run(&self, case: &Case, ctx: &mut Ctx) -> Vec<Violation> {
        let fault = case.get("fault").clamp(0, 9);
        let fname = FAULT_NAMES[fault as usize];
        let jit = case.get("jit") != 0;
        let exe = bin_path(jit);
        if !exe.exists() {
            return vec![Violation::new("C19", "C19/harness/binary-missing".to_string(), format!("{} not built", exe.display()))];
        }
        let dir = crate::driver::work_dir();
        let path = dir.join(format!("c19-{}-{}.gb", std::process::id(), case.index));
        let mut out = Vec::new();
        let t = case.get("type") as u8;
        let romc = case.get("romc") as u8;
        let ramc = case.get("ramc") as u8;

        // ---- what the file is
        let mut built: Option<Built> = None;
        let run_path: std::path::PathBuf;
        if fault == F_PATH {
            run_path = match case.get("arg") {
                0 => dir.join("does-not-exist.gb"),
                1 => dir.clone(),
                _ => std::path::PathBuf::from(""),
            };
        } else {
            built = write_file(case, &path);
            if built.is_none() {
                return vec![];
            }
            run_path = path.clone();
        }

        // ---- what RefHeader admits
        #[derive(PartialEq, Debug, Clone, Copy)]
        enum Want {
            MustReject,
            RejectOrControlled,
            NoFaultOnly,
            LoadableGarbage,
            Accept,
        }
        // what is really in the file after the damage (a torn write can, by coincidence, leave a header whose checksum holds)
        let mut stub_intact = true;
        if let Some(b) = built.as_mut() {
            if b.file_len >= 0x150 {
                if let Ok(bytes) = std::fs::read(&path) {
                    b.header = bytes[0x100..0x150].to_vec();
                    let end = (0x150 + b.stub.len()).min(bytes.len());
                    stub_intact = bytes[0x150..end] == b.stub[..end - 0x150] && end - 0x150 == b.stub.len();
                    // the stub must also match the header as it now reads (type / size codes decide what the stub has to do)
                    let declared_now = refh::rom_bytes(b.header[0x48]).unwrap_or(0x8000);
                    let (st_now, _) = stub(b.header[0x47], declared_now / 0x4000, refh::ram_bytes(b.header[0x49]).unwrap_or(0));
                    if st_now != b.stub {
                        stub_intact = false;
                    }
                    b.declared_len = declared_now;
                }
            }
        }
        let want = match &built {
            None => Want::MustReject,
            Some(b) => {
                if b.file_len < 0x150 {
                    Want::RejectOrControlled
                } else if refh::checksum(&b.header[0x34..0x4d]) != b.header[0x4d] {
                    Want::MustReject
                } else if !refh::supported_type(b.header[0x47]) {
                    Want::RejectOrControlled
                } else if refh::rom_bytes(b.header[0x48]).is_none() || refh::ram_bytes(b.header[0x49]).is_none() {
                    Want::NoFaultOnly
                } else if b.file_len < b.declared_len {
                    Want::RejectOrControlled
                } else if !stub_intact {
                    // a loadable header in front of code that is not the stub: accepted by definition; what the garbage then
                    // executes is not this property's subject (only a host-level fault would be)
                    Want::LoadableGarbage
                } else {
                    Want::Accept
                }
            }
        };

        // ---- run the real executable
        let mut cmd = std::process::Command::new(&exe);
        cmd.arg(&run_path).env("GB_DYNAREC_VERIF_MAX_UPDATES", "3000").env("RUST_BACKTRACE", "0").stdin(std::process::Stdio::null()).stdout(std::process::Stdio::piped()).stderr(std::process::Stdio::piped());
        let mut child = match cmd.spawn() {
            Ok(c) => c,
            Err(_) => return vec![],
        };
        let mut so = Vec::new();
        let mut se = Vec::new();
        let _ = child.stdout.take().unwrap().read_to_end(&mut so);
        let _ = child.stderr.take().unwrap().read_to_end(&mut se);
        let status = match child.wait() {
            Ok(s) => s,
            Err(_) => return vec![],
        };
        let path2 = path.clone();
        let stderr = String::from_utf8_lossy(&se).to_string();
        // classification does not depend on the wording of the loader's messages: a file was accepted iff the boot stub ran
        // (its serial output ends with "OK"; the built-in fallback program ends with "GB")
        let loading = so.ends_with(b"OK");
        let fallback = !loading;
        // (thread ids in the message differ from run to run: keep the location only)
        let panic_loc = stderr.lines().find(|l| l.contains("panicked at")).map(|l| l.split("panicked at").nth(1).unwrap_or("").trim().to_string()).unwrap_or_default();
        let load_path_panic = panic_loc.contains("src/cart.rs") || panic_loc.contains("src/system") || panic_loc.contains("src/main.rs");
        #[derive(PartialEq, Debug, Clone, Copy)]
        enum Got {
            Rejected,
            Controlled,
            Accepted,
            Fault,
        }
        let got = if let Some(sig) = status.signal() {
            let _ = sig;
            Got::Fault
        } else if status.success() {
            if fallback && !loading {
                Got::Rejected
            } else if loading {
                Got::Accepted
            } else {
                Got::Fault
            }
        } else if load_path_panic {
            Got::Controlled
        } else {
            Got::Fault
        };
        let describe = format!("fault {} (arg {}, {}), header type {:#04x} ROM code {:#04x} RAM code {:#04x}, file length {}, {} build: exit {:?}, stdout {:?}, panic '{}'", fname, case.get("arg"), case.get("arg2"), t, romc, ramc, built.as_ref().map(|b| b.file_len as i64).unwrap_or(-1), if jit { "jit" } else { "non-jit" }, status, String::from_utf8_lossy(&so[..so.len().min(60)]), panic_loc);
        let build = if jit { "jit" } else { "nonjit" };
        let bad = |what: &str| Violation::new("C19", format!("C19/{}/{}/{}", what, fname, build), describe.clone());
        match (want, got) {
            (Want::LoadableGarbage, _) => {
                ctx.cov.hit("probe.loadable_header_with_garbage_code");
                if status.signal().is_some() {
                    out.push(bad("fault-signal"));
                }
            }
            (_, Got::Fault) => out.push(bad(if status.signal().is_some() { "fault-signal" } else { "fault-after-load" })),
            (Want::MustReject, Got::Rejected) => {}
            (Want::MustReject, _) => out.push(bad("accepted-invalid-file")),
            (Want::RejectOrControlled, Got::Rejected) | (Want::RejectOrControlled, Got::Controlled) => {}
            (Want::RejectOrControlled, Got::Accepted) => out.push(bad("accepted-unloadable-file")),
            (Want::NoFaultOnly, _) => {}
            (Want::Accept, Got::Accepted) => {
                // sizes as the tables give: the stub's bytes
                let b = built.as_ref().unwrap();
                let banks = b.declared_len / 0x4000;
                let ram = refh::ram_bytes(ramc).unwrap();
                let (_, writes) = stub(t, banks, ram);
                let mut mbc = RefMbc::new(t, banks, ram);
                for (a, v) in writes {
                    mbc.write(a, v);
                }
                let bank = mbc.rom_bank();
                let mut id = (bank & 0xff) as u8;
                if fault == F_TORN {
                    let k = case.get("arg") as usize;
                    if bank * 0x4000 + 0x3ffe >= k {
                        id = case.get("arg2") as u8;
                    }
                }
                let title = {
                    let t11 = &b.header[0x34..0x3f];
                    let end = t11.iter().rposition(|c| *c != 0).map(|i| i + 1).unwrap_or(0);
                    String::from_utf8_lossy(&t11[..end]).to_string()
                };
                let _ = title;
                let mut expect: Vec<u8> = Vec::new();
                expect.push(id);
                if ram > 0 {
                    expect.push(0x5a);
                }
                expect.extend(b"OK");
                // (whatever the loader printed before the ROM started is not this property's subject)
                if !so.ends_with(&expect) {
                    let which = if so.len() > expect.len() - 2 - (ram > 0) as usize - 1 && so.get(expect.len() - 3 - (ram > 0) as usize) != Some(&id) { "rom-size" } else { "sizes" };
                    let _ = which;
                    out.push(Violation::new("C19", format!("C19/wrong-sizes-observed/{}/{}", fname, build), format!("{}; expected stdout to end with {:02x?} (last ROM bank id {:#04x}{})", describe, expect, id, if ram > 0 { ", RAM read-back 0x5a" } else { "" })));
                }
            }
            (Want::Accept, _) => out.push(bad("rejected-valid-file")),
        }
        let wcode = want as u64;
        let gcode = got as u64;
        ctx.cov.hit(&format!("fault.file_{}", fname.replace('-', "_")));
        ctx.cov.hit(&format!("outcome.{:?}", got).to_lowercase());
        ctx.cov.mark("outcome_by_fault", (fault as u64) << 8 | gcode);
        let argclass = match fault {
            F_LENGTH => {
                let l = case.get("arg");
                if l < 0x100 { 0 } else if l < 0x150 { 1 } else if (l as usize) < built.as_ref().map(|b| b.declared_len).unwrap_or(0) { 2 } else { 3 }
            }
            _ => (case.get("arg") & 0xff) as u64,
        };
        ctx.cov.mark("distinct", (fault as u64) << 40 | argclass << 32 | (t as u64) << 24 | (romc as u64) << 16 | (ramc as u64) << 8 | wcode << 4 | gcode);

        // ---- in-process decoding functions
        if case.get("inproc") != 0 && built.is_some() && built.as_ref().unwrap().file_len >= 0x150 && out.is_empty() {
            let b = built.as_ref().unwrap();
            let mf = MemFile::new("c19hdr");
            mf.set_len(0x150);
            mf.pwrite(0x100, &b.header);
            let mut file = crate::machine::dup_file(mf.fd);
            match gb_int::system::read_header(&mut file) {
                Ok(h) => {
                    let want_ck = refh::checksum(&b.header[0x34..0x4d]) == b.header[0x4d];
                    if h.valid_checksum() != want_ck {
                        out.push(Violation::new("C19", "C19/decode/valid-checksum".to_string(), format!("valid_checksum() = {}, header bytes say {}", h.valid_checksum(), want_ck)));
                    }
                    if let Some(r) = refh::rom_bytes(b.header[0x48]) {
                        if h.get_rom_size_bytes() != r {
                            out.push(Violation::new("C19", "C19/decode/rom-size".to_string(), format!("ROM size code {:#04x}: get_rom_size_bytes() = {}, table says {}", b.header[0x48], h.get_rom_size_bytes(), r)));
                        }
                    }
                    if let Some(r) = refh::ram_bytes(b.header[0x49]) {
                        if h.get_ram_size_bytes() != r {
                            out.push(Violation::new("C19", "C19/decode/ram-size".to_string(), format!("RAM size code {:#04x}: get_ram_size_bytes() = {}, table says {}", b.header[0x49], h.get_ram_size_bytes(), r)));
                        }
                    }
                    let r = std::panic::catch_unwind(std::panic::AssertUnwindSafe(|| {
                        let _ = h.create_cart_state();
                    }));
                    if r.is_err() {
                        let _ = crate::driver::take_panic();
                    }
                    if r.is_ok() != refh::supported_type(b.header[0x47]) {
                        out.push(Violation::new("C19", "C19/decode/supported-type".to_string(), format!("type {:#04x}: create_cart_state {} but the supported set says {}", b.header[0x47], if r.is_ok() { "succeeded" } else { "refused" }, refh::supported_type(b.header[0x47]))));
                    }
                    ctx.cov.hit("probe.inprocess_header_decodes");
                    // a loadable file: the core built from it must have ROM and cartridge-RAM storage of the table sizes
                    if want == Want::Accept && b.declared_len <= 0x200000 {
                        if let Ok(f) = std::fs::File::open(&path2) {
                            use std::os::unix::io::AsRawFd;
                            let built_core = std::panic::catch_unwind(std::panic::AssertUnwindSafe(|| crate::machine::new_machine(false, f.as_raw_fd())));
                            if let Ok(Ok(mut mm)) = built_core {
                                let rom_len = mm.rom().len();
                                let ram_len = mm.cram().len();
                                let want_ram = refh::ram_bytes(b.header[0x49]).unwrap_or(0);
                                if rom_len != b.declared_len {
                                    out.push(Violation::new("C19", "C19/sizing/rom-buffer".to_string(), format!("ROM size code {:#04x}: the core maps {} bytes of ROM, the table says {}", b.header[0x48], rom_len, b.declared_len)));
                                }
                                if ram_len != want_ram {
                                    out.push(Violation::new("C19", "C19/sizing/ram-buffer".to_string(), format!("type {:#04x}, RAM size code {:#04x}: the core has {} bytes of cartridge RAM, the table says {}", b.header[0x47], b.header[0x49], ram_len, want_ram)));
                                }
                                ctx.cov.hit("probe.inprocess_buffer_sizes_checked");
                                // ... and the controller of the declared type: a short fixed register protocol (bank numbers that
                                // wrap to the image size, upper bits, mode, RAM bank) must select the banks the header's type,
                                // ROM size and RAM size define
                                let mut rm = crate::model::mbc::RefMbc::new(b.header[0x47], b.declared_len / 0x4000, want_ram);
                                for (a, v) in [(0x2000u16, 2u8), (0x2100, 3), (0x3fff, 0), (0x4000, 1), (0x6000, 1), (0x4000, 3), (0x2000, 0x21), (0x6000, 0), (0x2000, 0x7f), (0x4000, 2)] {
                                    mm.write(a, v);
                                    rm.write(a, v);
                                    if mm.rom_bank() != rm.rom_bank() {
                                        out.push(Violation::new("C19", "C19/controller/rom-bank".to_string(), format!("type {:#04x}, ROM size code {:#04x}: after writing {:#04x} to {:#06x} bank {} is mapped at 0x4000, the declared controller maps {}", b.header[0x47], b.header[0x48], v, a, mm.rom_bank(), rm.rom_bank())));
                                        break;
                                    }
                                    if want_ram > 0 && mm.ram_bank() != rm.ram_bank() {
                                        out.push(Violation::new("C19", "C19/controller/ram-bank".to_string(), format!("type {:#04x}, RAM size code {:#04x}: after writing {:#04x} to {:#06x} RAM bank {} is selected, the declared controller selects {}", b.header[0x47], b.header[0x49], v, a, mm.ram_bank(), rm.ram_bank())));
                                        break;
                                    }
                                }
                                ctx.cov.hit("probe.inprocess_controller_protocol_checked");
                            }
                        }
                    }
                }
                Err(e) => out.push(Violation::new("C19", "C19/decode/read-header".to_string(), format!("read_header failed on a 0x150-byte file: {}", e))),
            }
        }
        let _ = std::fs::remove_file(&path2);
        // ---- controller of the declared type, round-robin over every (type, ROM size 32-256 KiB, RAM size) combination:
        // a well-formed image is loaded the production way and a fixed register protocol is compared with the reference
        // controller of that header (the file-fault cases above only rarely yield an accepted MBC image of a given size)
        {
            let combo = case.index as usize % (7 * 4 * 6);
            let (t, rc, mc) = (crate::cart::CART_TYPES[combo % 7], [0u8, 1, 2, 3][(combo / 7) % 4], crate::cart::RAM_CODES[combo / 28]);
            let mut c = Case::new("rom_load_faults", 0, 0);
            c.set("cart_type", t as i64);
            c.set("rom_code", rc as i64);
            c.set("ram_code", mc as i64);
            c.set("rom_fill", 0);
            c.set("ramfill", 0);
            if let Ok((_img, mut reps)) = crate::setup::replicas(&c, &[false]) {
                let mm = reps[0].as_mut();
                let want_ram = if t == 0x02 || t == 0x03 || t == 0x12 || t == 0x13 { refh::ram_bytes(mc).unwrap_or(0) } else { mm.cram().len() };
                let mut rm = crate::model::mbc::RefMbc::new(t, crate::cart::rom_banks(rc), want_ram);
                for (a, v) in [(0x2000u16, 2u8), (0x2100, 3), (0x3fff, 0), (0x4000, 1), (0x6000, 1), (0x4000, 3), (0x2000, 0x21), (0x6000, 0), (0x2000, 0x7f), (0x4000, 2), (0x2000, 4)] {
                    mm.write(a, v);
                    rm.write(a, v);
                    if mm.rom_bank() != rm.rom_bank() {
                        out.push(Violation::new("C19", "C19/controller/rom-bank".to_string(), format!("type {:#04x}, ROM size code {:#04x}: after writing {:#04x} to {:#06x} bank {} is mapped at 0x4000, the declared controller maps {}", t, rc, v, a, mm.rom_bank(), rm.rom_bank())));
                        break;
                    }
                }
                ctx.cov.hit("probe.inprocess_controller_protocol_checked");
            }
        }
        out
    }
}
