//! C07 — interrupt dispatch rules. Core::handle_interrupt is reached directly,
//! through the halted path of update(), through run_interp() and through
//! run_code_block(); states are injected (stratified over IF/IE/IME/run state/
//! SP classes) and also produced by histories in which the devices raise the
//! requests at simulated times. Reference: RefIntc over RefBus.

use super::{Ctx, Info, Scenario, Violation};
use crate::cart::patch_key;
use crate::case::Case;
use crate::machine::{Machine, Regs};
use crate::model::bus::RefBus;
use crate::model::intc::{dispatch_set, Outcome, RefCpu};
use crate::prng::Rng;
use crate::setup::{model_of, replicas};

pub struct IrqDispatch;

const NOP_AT: u16 = 0x0150;
const BLOCK_AT: u16 = 0x0160;
const BLOCK_TARGET: u16 = 0x0170;

const SP_CLASSES: [u16; 40] = [
    0xc100, 0xd000, 0xdfff, 0xe000, 0xff90, 0xfffe, 0xffff, 0x0000, 0x0001, 0x0002, 0xff10, 0xff11, 0xff0f, 0xff48, 0xff47, 0xff03, 0xff02, 0xff05, 0xff06, 0xff08, 0xff41,
    0xff42, 0xff46, 0xff01, 0x8000, 0x8001, 0xa000, 0xa001, 0xc000, 0xc001, 0xfe00, 0xfe01, 0xfea0, 0xfea1, 0xff00, 0xff80, 0xff81, 0x2001, 0x4001, 0x6001,
];

fn sp_class(sp: u16) -> u64 {
    match SP_CLASSES.iter().position(|&x| x == sp) {
        Some(i) => i as u64,
        None => 40 + (sp >> 13) as u64,
    }
}

fn path_name(k: i64) -> &'static str {
    match k {
        0 => "direct",
        1 => "halted-update",
        2 => "run_interp",
        _ => "run_code_block",
    }
}

pub fn compare(prop: &'static str, m: &mut dyn Machine, cpu: &RefCpu, bus: &mut RefBus, alt_if: Option<u8>, path: &str, what: &str) -> Option<Violation> {
    let fail = |field: &str, detail: String| Some(Violation::new(prop, format!("{}/{}/{}", prop, field, path), format!("{}: {}", what, detail)));
    let r = m.regs();
    if r.ip != cpu.pc as u32 {
        return fail("pc", format!("PC = {:#06x}, reference {:#06x}", r.ip, cpu.pc));
    }
    if r.sp != cpu.sp as u32 {
        return fail("sp", format!("SP = {:#06x}, reference {:#06x}", r.sp, cpu.sp));
    }
    if m.ime() != cpu.ime {
        return fail("ime", format!("master enable = {}, reference {} (0 off, 1 on, 2 enable-pending)", m.ime(), cpu.ime));
    }
    if m.run_state() != cpu.run_state {
        return fail("run-state", format!("run state = {}, reference {} (0 run, 1 halt, 2 stop)", m.run_state(), cpu.run_state));
    }
    if r.cycles != cpu.cycles {
        return fail("cycles", format!("undelivered machine cycles = {}, reference {}", r.cycles, cpu.cycles));
    }
    let iflag = m.read(0xff0f);
    if !bus.observe(0xff0f, iflag) {
        match alt_if {
            Some(a) if (iflag & 0x1f) == (a & 0x1f) => {
                bus.iflag = a & 0x1f;
            }
            _ => return fail("if", format!("IF = {:#04x}, reference {:#04x}{}", iflag & 0x1f, bus.iflag, alt_if.map(|a| format!(" (or {:#04x})", a)).unwrap_or_default())),
        }
    }
    let ie = m.read(0xffff);
    if ie != bus.ie {
        return fail("ie", format!("IE = {:#04x}, reference {:#04x}", ie, bus.ie));
    }
    // memory: only the two pushed bytes may have changed, with their documented effect
    if m.wram() != &bus.wram[..] {
        let i = (0..0x2000).find(|&i| m.wram()[i] != bus.wram[i]).unwrap();
        return fail("memory", format!("work RAM differs at {:#06x}: {:#04x}, reference {:#04x}", 0xc000 + i, m.wram()[i], bus.wram[i]));
    }
    if m.hram() != &bus.hram[..] {
        let i = (0..0x7f).find(|&i| m.hram()[i] != bus.hram[i]).unwrap();
        return fail("memory", format!("high RAM differs at {:#06x}: {:#04x}, reference {:#04x}", 0xff80 + i, m.hram()[i], bus.hram[i]));
    }
    if m.vram() != &bus.vram[..] {
        return fail("memory", "video RAM differs".to_string());
    }
    let n = bus.cram.len().min(m.cram().len());
    if m.cram()[..n] != bus.cram[..n] {
        return fail("memory", "cartridge RAM differs".to_string());
    }
    for i in 0..0xa0 {
        let v = m.oam()[i];
        if bus.oam_known[i] {
            if v != bus.oam[i] {
                return fail("memory", format!("OAM differs at {:#04x}: {:#04x}, reference {:#04x}", i, v, bus.oam[i]));
            }
        } else {
            bus.oam[i] = v;
            bus.oam_known[i] = true;
        }
    }
    if m.rom_bank() != bus.mbc.rom_bank() || (bus.mbc.ram_banks > 0 && !bus.mbc.rtc_selected && m.ram_bank() != bus.mbc.ram_bank()) {
        return fail("mapping", format!("bank mapping ROM {} RAM {}, reference ROM {} RAM {}", m.rom_bank(), m.ram_bank(), bus.mbc.rom_bank(), bus.mbc.ram_bank()));
    }
    let dma = m.dma().map(|d| (d.0 as u16, d.1));
    if dma != bus.dma {
        return fail("dma", format!("DMA engine {:?}, reference {:?}", dma, bus.dma));
    }
    None
}

impl Scenario for IrqDispatch {
    fn name(&self) -> &'static str {
        "irq_dispatch"
    }
    fn quick_runs(&self, _f: &str) -> u64 {
        72000
    }
    fn chunk(&self) -> u64 {
        400
    }
    fn death_property(&self, _f: &str) -> Option<&'static str> {
        Some("C07")
    }
    fn info(&self) -> Info {
        Info {
            rule: "one case = one cartridge + a history of operations on one real Core (jit or non-jit build, drawn): state injections (IF, IE incl. unused bits, master enable in {off, on, enable-pending}, run state in {run, halt, stop}, PC, SP from a class list that puts the pushes on IE, IF, bank registers, the DMA/serial/timer/LCD registers, ROM, VRAM/OAM/echo edges), bus writes, joypad events and elapsed time (so timer/LCD/joypad raise requests themselves), each followed by one step that reaches Core::handle_interrupt directly, through the halted path of update(), through run_interp() (one NOP) or through run_code_block() (NOP; JP); after the step IF, IE, master enable, run state, PC, SP, undelivered cycles, every RAM region, bank mapping and DMA state are compared with RefIntc over RefBus. distinct_nontrivial = distinct (IF&IE pending set, IF, master enable, run state, SP class, path, outcome) tuples",
            components_real: &["Core::handle_interrupt, Core::update (halted path), Core::run_interp, Core::run_code_block tail", "IO::get_active_interrupts, interrupt flag/mask registers via the bus", "mem::memory_write_byte for the pushes (all regions)"],
            components_stub: &["the instruction stream is a NOP (run_interp) or NOP; JP (run_code_block)", "host event loop replaced by the simulator's event schedule"],
            assumptions: &["when the low-byte push lands on IF (SP-2 = 0xFF0F) both orders of that write and the IF-bit clear are accepted", "cancellation is decided after the high-byte push", "cartridge RAM enable and MBC3 RTC selection not asserted (pushes that would select them are applied to the model as RAM-enable 0x0A / value & 3)"],
            fault_kinds: &["irq (IF injection and device-raised requests at simulated times)", "joy (press events)", "step (which step function reaches the dispatch)"],
        }
    }

    fn generate(&self, rng: &mut Rng, index: u64, thorough: bool, case: &mut Case) {
        let cart_type = rng.pick(&[0x00u8, 0x01, 0x03, 0x11, 0x13]);
        case.set("cart_type", cart_type as i64);
        case.set("rom_code", if cart_type == 0 { 0 } else { rng.pick(&[1i64, 2]) });
        case.set("ram_code", 3);
        case.set("rom_fill", 0);
        case.set("ramfill", 1 + rng.below(1 << 30) as i64);
        case.set("jit", rng.below(2) as i64);
        case.blobs.insert(patch_key(NOP_AT as usize), vec![0x00, 0x00]);
        case.blobs.insert(patch_key(BLOCK_AT as usize), vec![0x00, 0xc3, BLOCK_TARGET as u8, (BLOCK_TARGET >> 8) as u8]);
        let history = index % 3 == 2;
        if cart_type != 0 {
            case.push("w", &[0x0000, 0x0a]);
        }
        if !history {
            // stratified state sampling
            let n = if thorough { 60 } else { 30 };
            for _ in 0..n {
                let iflag = rng.below(32) as i64;
                let ie = if rng.chance(1, 4) { rng.byte() as i64 } else { rng.below(32) as i64 };
                let ime = rng.below(3) as i64;
                let rs = rng.below(3) as i64;
                let pc = match rng.below(4) {
                    0 => rng.pick(&[0x0000u16, 0x00ff, 0x0100, 0x1f1f, 0xe0e0, 0x00e0, 0x1f00, 0xffff, 0x8000, 0x0a0a]),
                    _ => rng.word(),
                } as i64;
                let sp = if rng.chance(3, 4) { rng.pick(&SP_CLASSES) } else { rng.word() } as i64;
                case.push("set", &[iflag, ie, ime, rs, pc, sp]);
                let k = rng.below(4) as i64;
                case.push("step", &[k]);
            }
        } else {
            // device-driven history
            case.push("w", &[0xff07, rng.pick(&[5i64, 6, 7, 4])]);
            case.push("w", &[0xff06, rng.pick(&[0xf0i64, 0xfe, 0x80, 0x00])]);
            case.push("w", &[0xff05, rng.pick(&[0xfci64, 0xff, 0xf0])]);
            case.push("w", &[0xff41, (rng.byte() & 0x78) as i64]);
            case.push("w", &[0xff45, rng.pick(&[144i64, 145, 0, 153, 150])]);
            case.push("w", &[0xff00, rng.pick(&[0x10i64, 0x20, 0x00, 0x30])]);
            case.push("set", &[0, rng.below(32) as i64, rng.below(3) as i64, rng.below(3) as i64, 0x0150, 0xdff0]);
            let n = if thorough { 200 } else { 80 };
            for _ in 0..n {
                match rng.below(12) {
                    0 | 1 => case.push("adv", &[4 * rng.below(300) as i64]),
                    2 => case.push("adv", &[4 * rng.below(20) as i64]),
                    3 => case.push("j", &[rng.below(8) as i64, 1]),
                    4 => case.push("j", &[rng.below(8) as i64, 0]),
                    5 => case.push("w", &[0xffff, rng.below(32) as i64]),
                    6 => case.push("ime", &[rng.below(3) as i64]),
                    7 => case.push("rs", &[rng.below(3) as i64]),
                    _ => case.push("step", &[rng.below(4) as i64]),
                }
            }
        }
    }

    fn run(&self, case: &Case, ctx: &mut Ctx) -> Vec<Violation> {
        let jit = case.get("jit") != 0;
        let (_img, mut reps) = match replicas(case, &[jit]) {
            Ok(x) => x,
            Err(_) => return vec![],
        };
        let m = reps[0].as_mut();
        let mut bus = model_of(case, m);
        let mbc3 = case.get("cart_type") >= 0x11;
        // keep model writes inside what the statements define (RAM gating, RTC selection)
        let norm = |a: u16, v: u8| -> u8 {
            if a < 0x2000 {
                0x0a
            } else if mbc3 && (0x4000..0x6000).contains(&a) {
                v & 3
            } else {
                v
            }
        };
        let r0 = m.regs();
        let mut cpu = RefCpu { pc: r0.ip as u16, sp: r0.sp as u16, ime: m.ime(), run_state: m.run_state(), cycles: 0 };
        let mut out = Vec::new();
        let mut clocks = 0u64;
        for (opi, op) in case.ops.iter().enumerate() {
            match op.k {
                "w" => {
                    let a = op.arg(0) as u16;
                    let v = norm(a, op.arg(1) as u8);
                    m.write(a, v);
                    bus.write(a, v);
                }
                "set" => {
                    let (iflag, ie) = ((op.arg(0) & 0x1f) as u8, op.arg(1) as u8);
                    m.write(0xff0f, iflag);
                    bus.write(0xff0f, iflag);
                    m.write(0xffff, ie);
                    bus.write(0xffff, ie);
                    cpu.ime = op.arg(2).clamp(0, 2) as u8;
                    cpu.run_state = op.arg(3).clamp(0, 2) as u8;
                    cpu.pc = op.arg(4) as u16;
                    cpu.sp = op.arg(5) as u16;
                    m.set_ime(cpu.ime);
                    m.set_run_state(cpu.run_state);
                    let mut r = m.regs();
                    r.ip = cpu.pc as u32;
                    r.sp = cpu.sp as u32;
                    m.set_regs(r);
                }
                "ime" => {
                    cpu.ime = op.arg(0).clamp(0, 2) as u8;
                    m.set_ime(cpu.ime);
                }
                "rs" => {
                    cpu.run_state = op.arg(0).clamp(0, 2) as u8;
                    m.set_run_state(cpu.run_state);
                }
                "adv" => {
                    let c = (op.arg(0).clamp(0, 1 << 16) as u64) & !3;
                    if c > 0 {
                        m.clock(c as usize);
                        bus.advance(c);
                        clocks += c;
                    }
                }
                "j" => {
                    let b = op.arg(0) as u8 & 7;
                    if op.arg(1) != 0 {
                        m.press(b);
                        bus.joy.press(b);
                    } else {
                        m.release(b);
                        bus.joy.release(b);
                    }
                    ctx.cov.hit("fault.joy_events");
                }
                "step" => {
                    // resolve what the statements leave open (timer state after a DIV write that may or may not have counted; IF bits
                    // raised by such writes) from what the implementation shows before the step, so that the step itself is decided
                    for a in [0xff04u16, 0xff05] {
                        let v = m.read(a);
                        if !bus.observe(a, v) {
                            out.push(Violation::new("C07", format!("C07/timer-before-step/{:02x}", a & 0xff), format!("op {}: read {:#06x} = {:#04x} before the step contradicts every admissible timer state", opi, a, v)));
                            return out;
                        }
                    }
                    let f = m.read(0xff0f);
                    if !bus.observe(0xff0f, f) {
                        out.push(Violation::new("C07", "C07/if-before-step".to_string(), format!("op {}: IF = {:#04x} before the step, reference {:#04x}", opi, f & 0x1f, bus.iflag)));
                        return out;
                    }
                    let mut k = op.arg(0).clamp(0, 3);
                    if k == 1 && cpu.run_state == 0 {
                        k = 2;
                    }
                    if (k == 2 || k == 3) && cpu.run_state != 0 {
                        k = 1;
                    }
                    let path = path_name(k);
                    // a push onto a cartridge register whose effect the statements leave open (RAM enable, MBC3 RTC select) cannot be
                    // modelled: such a step is not taken; both sides get a stack in work RAM instead
                    let push_targets = [cpu.sp.wrapping_sub(1), cpu.sp.wrapping_sub(2)];
                    if case.get("cart_type") != 0 && push_targets.iter().any(|&a| a < 0x2000 || (mbc3 && (0x4000..0x6000).contains(&a))) {
                        ctx.cov.hit("stack_moved_off_unspecified_cart_register");
                        cpu.sp = 0xdff0;
                        let mut r = m.regs();
                        r.sp = 0xdff0;
                        m.set_regs(r);
                    }
                    let before = (bus.iflag, bus.ie, cpu.ime, cpu.run_state, cpu.sp);
                    // reference
                    match k {
                        0 => {}
                        1 => {
                            bus.advance(4);
                            clocks += 4;
                        }
                        2 => {
                            cpu.pc = NOP_AT;
                            let mut r = m.regs();
                            r.ip = NOP_AT as u32;
                            m.set_regs(r);
                            cpu.pc = cpu.pc.wrapping_add(1);
                            if cpu.ime == 2 {
                                cpu.ime = 1;
                            }
                            let consumed = cpu.cycles + 1;
                            cpu.cycles = 0;
                            bus.advance(4 * consumed as u64);
                            clocks += 4 * consumed as u64;
                        }
                        _ => {
                            let mut r = m.regs();
                            r.ip = BLOCK_AT as u32;
                            m.set_regs(r);
                            cpu.pc = BLOCK_TARGET;
                            let consumed = cpu.cycles + 1 + 4;
                            cpu.cycles = 0;
                            bus.advance(4 * consumed as u64);
                            clocks += 4 * consumed as u64;
                        }
                    }
                    let candidates = dispatch_set(&cpu, &bus);
                    if candidates.len() > 1 {
                        ctx.cov.hit("spec_set_forks");
                    }
                    // implementation
                    let res = std::panic::catch_unwind(std::panic::AssertUnwindSafe(|| match k {
                        0 => m.handle_interrupt(),
                        1 => m.update(),
                        2 => m.run_interp(),
                        _ => m.run_code_block(),
                    }));
                    let _ = crate::capture::take();
                    if res.is_err() {
                        let msg = crate::driver::take_panic();
                        out.push(Violation::new("C07", format!("C07/panic/{}", path), format!("op {}: step panicked: {}", opi, msg)));
                        return out;
                    }
                    // the implementation must equal one admissible result; the model continues from that one
                    let mut first_fail: Option<Violation> = None;
                    let mut chosen: Option<(RefCpu, RefBus, Outcome, Option<u8>)> = None;
                    for (c, b, o, a) in candidates {
                        let what = format!("op {} step via {} from (IF {:#04x}, IE {:#04x}, IME {}, run state {}, SP {:#06x}) expecting {:?}", opi, path, before.0, before.1, before.2, before.3, before.4, o);
                        let mut b2 = b.clone();
                        match compare("C07", m, &c, &mut b2, a, path, &what) {
                            None => {
                                chosen = Some((c, b2, o, a));
                                break;
                            }
                            Some(v) => {
                                if first_fail.is_none() {
                                    first_fail = Some(v);
                                }
                            }
                        }
                    }
                    let (outcome, alt) = match chosen {
                        Some((c, b, o, a)) => {
                            cpu = c;
                            bus = b;
                            (o, a)
                        }
                        None => {
                            out.push(first_fail.unwrap());
                            return out;
                        }
                    };
                    let oc = match outcome {
                        Outcome::Nothing => 0u64,
                        Outcome::WokeOnly => 1,
                        Outcome::Dispatched { .. } => 2,
                        Outcome::Cancelled => 3,
                    };
                    ctx.cov.hit(match outcome {
                        Outcome::Nothing => "probe.outcome_nothing",
                        Outcome::WokeOnly => "probe.outcome_woke_without_dispatch",
                        Outcome::Dispatched { .. } => "probe.outcome_dispatched",
                        Outcome::Cancelled => "probe.outcome_cancelled_pc_0000",
                    });
                    if alt.is_some() {
                        ctx.cov.hit("spec_set_forks");
                    }
                    ctx.cov.mark("distinct", (before.0 as u64 & before.1 as u64 & 0x1f) << 40 | (before.0 as u64) << 32 | (before.2 as u64) << 28 | (before.3 as u64) << 24 | sp_class(before.4) << 8 | (k as u64) << 4 | oc);
                    ctx.cov.mark("state_cells", (before.0 as u64) << 16 | ((before.1 & 0x1f) as u64) << 8 | (before.2 as u64) << 4 | before.3 as u64);
                }
                _ => {}
            }
        }
        ctx.cov.add("sim_clocks", clocks);
        out
    }
}
