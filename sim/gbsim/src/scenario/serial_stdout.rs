//! C18 — serial transfers appear on standard output, in order, nothing else.
//! In process: both builds run generated store sequences hitting 0xFF01/0xFF02
//! through every store form, from ROM (translated in the jit build) and from
//! RAM, instruction- or block-stepped; the bytes each replica wrote to the real
//! fd 1 must equal the fold of that replica's own bus-write trace. Real binary:
//! the shipped executable (both feature sets) runs the same ROM for a fixed
//! number of updates and its stdout is compared with banner + fold of an
//! in-process twin.

use super::{Ctx, Info, Scenario, Violation};
use crate::cart::patch_key;
use crate::case::Case;
use crate::machine::{Machine, Regs, RUN};
use crate::prng::Rng;
use crate::setup::replicas;
use std::io::Read;

pub struct SerialStdout;

const CODE_AT: u16 = 0x0200;
const RAM_AT: u16 = 0xc800;
const CALL_TARGET: u16 = 0x0180;

/// expected stdout bytes for a sequence of bus writes, given the SB value before them
pub fn fold(trace: &[(u8, u16, u8)], sb: &mut u8) -> Vec<u8> {
    let mut out = Vec::new();
    for e in trace {
        if e.0 != 1 {
            continue;
        }
        if e.1 == 0xff01 {
            *sb = e.2;
        } else if e.1 == 0xff02 && e.2 & 0x80 != 0 {
            out.push(*sb);
        }
    }
    out
}

/// one store that may hit the serial registers; `rom` allows CALL/RST forms (absolute targets)
fn store_piece(rng: &mut Rng, rom: bool, cont: &mut Vec<u8>) {
    let reg = rng.pick(&[0x01u8, 0x02, 0x02, 0x01, 0x00, 0x03]);
    let val = if rng.chance(1, 2) { rng.pick(&[0x80u8, 0x81, 0xff, 0x00, 0x01, 0x7f, 0xc0]) } else { rng.byte() };
    match rng.below(if rom { 16 } else { 13 }) {
        0 | 1 => cont.extend([0x3e, val, 0xe0, reg]),
        2 => cont.extend([0x3e, val, 0x0e, reg, 0xe2]),
        3 => cont.extend([0x3e, val, 0xea, reg, 0xff]),
        4 => {
            let r = rng.pick(&[0u8, 1, 2, 3, 7]);
            cont.extend([0x21, reg, 0xff]);
            cont.extend([[0x06u8, 0x0e, 0x16, 0x1e, 0, 0, 0, 0x3e][r as usize], val, 0x70 | r]);
        }
        5 => cont.extend([0x21, reg, 0xff, 0x36, val]),
        6 => cont.extend([0x21, reg, 0xff, 0x3e, val, rng.pick(&[0x22u8, 0x32])]),
        7 => {
            if rng.chance(1, 2) {
                cont.extend([0x01, reg, 0xff, 0x3e, val, 0x02]);
            } else {
                cont.extend([0x11, reg, 0xff, 0x3e, val, 0x12]);
            }
        }
        8 => cont.extend([0x21, reg, 0xff, rng.pick(&[0x34u8, 0x35])]),
        9 => cont.extend([0x21, reg, 0xff, 0xcb, (rng.below(32) as u8) << 3 | 6]),
        10 => {
            // LD (a16),SP: low byte to a16, high byte to a16+1
            let sp = rng.word();
            cont.extend([0x31, sp as u8, (sp >> 8) as u8, 0x08, reg, 0xff, 0x31, 0xf0, 0xdf]);
        }
        11 => {
            // PUSH with the stack on the serial registers: high byte -> SC (0xFF02), low byte -> SB (0xFF01)
            let w = if rng.chance(1, 2) { 0x8000 | rng.word() } else { rng.word() };
            cont.extend([0x01, w as u8, (w >> 8) as u8, 0x31, 0x03, 0xff, 0xc5, 0x31, 0xf0, 0xdf]);
        }
        12 => cont.extend([0x3e, val, 0xe0, 0x01, 0x3e, rng.pick(&[0x80u8, 0x81, 0xff]), 0xe0, 0x02]),
        13 | 14 => {
            // CALL with SP = 0xFF03: return address bytes land on SC/SB; the target restores SP and jumps back through HL
            let here_after = CODE_AT as usize + cont.len() + 3 + 3 + 3;
            cont.extend([0x21, here_after as u8, (here_after >> 8) as u8, 0x31, 0x03, 0xff, 0xcd, CALL_TARGET as u8, (CALL_TARGET >> 8) as u8]);
        }
        _ => {
            let here_after = CODE_AT as usize + cont.len() + 3 + 3 + 1;
            cont.extend([0x21, here_after as u8, (here_after >> 8) as u8, 0x31, 0x03, 0xff, 0xef]); // RST 28
        }
    }
}

fn gen_code(rng: &mut Rng, rom: bool, n: usize) -> Vec<u8> {
    let mut code = Vec::new();
    for _ in 0..n {
        store_piece(rng, rom, &mut code);
        match rng.below(8) {
            6 => code.extend([0x3e, rng.pick(&[0xc1u8, 0x00, 0x80, 0xd0]), 0xe0, 0x46]), // start an OAM DMA: the next stores happen while it runs
            7 => {
                // cartridge-register write (bank select, RAM enable, MBC3 clock-register select / latch)
                let reg = rng.pick(&[0x0000u16, 0x2000, 0x4000, 0x6000]);
                let val = rng.pick(&[0x00u8, 0x01, 0x0a, 0x08, 0x09, 0x0c, 0x03]);
                if rom || reg != 0x2000 {
                    code.extend([0x3e, val, 0xea, reg as u8, (reg >> 8) as u8]);
                }
            }
            3 => {
                // the same control store twice in a row, inside one block (and once more with the absolute form)
                let v = rng.pick(&[0x81u8, 0x80, 0xff, 0x01]);
                code.extend([0x3e, v, 0xe0, 0x02, 0xe0, 0x02]);
                if rng.chance(1, 2) {
                    code.extend([0xea, 0x02, 0xff, 0xea, 0x02, 0xff]);
                }
            }
            4 if rom => {
                // an interrupt dispatch with the stack at the top of the address space: the pushed PC bytes land on IE (and may
                // cancel the dispatch, which then continues at 0x0000); every vector restores SP and returns through HL
                let mask = rng.pick(&[0x01u8, 0x04, 0x08, 0x1f, 0x10]);
                let sp = rng.pick(&[0x0000u16, 0x0001, 0xdff0]);
                let resume = CODE_AT as usize + code.len() + 3 + 3 + 4 + 4 + 2;
                code.extend([0x21, resume as u8, (resume >> 8) as u8, 0x31, sp as u8, (sp >> 8) as u8]);
                code.extend([0x3e, mask, 0xe0, 0xff, 0x3e, mask, 0xe0, 0x0f, 0xfb, 0x00]);
                // resume: DI; IE = IF = 0
                code.extend([0xf3, 0xaf, 0xe0, 0xff, 0xe0, 0x0f]);
            }
            0 => code.extend([0x18, 0x00]), // block boundary
            1 => code.extend(crate::sm83::safe_instruction(rng)),
            2 => code.extend([0x21, 0x00, 0xc1]),
            _ => {}
        }
        // keep HL off ROM registers for the safe instructions
    }
    code.extend([0x18, 0xfe]);
    code
}

fn step(m: &mut dyn Machine, block: bool, jit: bool) -> Result<(), String> {
    let r = std::panic::catch_unwind(std::panic::AssertUnwindSafe(|| {
        if m.run_state() != RUN {
            m.update();
        } else if block {
            m.run_code_block();
        } else if jit {
            m.run_interp();
        } else {
            m.update();
        }
    }));
    r.map_err(|_| crate::driver::panic_class(&crate::driver::take_panic()))
}

fn bin_path(jit: bool) -> std::path::PathBuf {
    crate::driver::root().join("target").join(if jit { "repo-bin-jit" } else { "repo-bin-int" }).join("release").join("gb-dynarec")
}

impl Scenario for SerialStdout {
    fn name(&self) -> &'static str {
        "serial_stdout"
    }
    fn quick_runs(&self, _f: &str) -> u64 {
        16000
    }
    fn chunk(&self) -> u64 {
        200
    }
    fn death_property(&self, _f: &str) -> Option<&'static str> {
        Some("C18")
    }
    fn info(&self) -> Info {
        Info {
            rule: "one case = generated code that writes arbitrary values to 0xFF01/0xFF02 (and neighbours 0xFF00/0xFF03) through every store form the CPU has (LDH, LD (C),A, LD (a16),A, LD (HL),r/n, LD (HL+/-),A, LD (BC/DE),A, INC/DEC (HL), CB read-modify-write on (HL), LD (a16),SP, PUSH/CALL/RST with the stack on the serial registers) mixed with unrelated instructions and block boundaries, run from ROM and, copied, from work RAM, instruction- or block-stepped, on a jit-build and a non-jit-build replica with cache-flush and small-arena faults; after every step the bytes that replica wrote to the real fd 1 (a memfd owned by the simulator) must equal the fold of its own bus-write trace (SB value at each SC write with bit 7 set). 1 case in 16 runs the real executable (both feature sets alternately) on the same ROM for a fixed number of updates with stdout on a pipe or a regular file and compares it with 'Loading \"<title>\"' + the fold of an in-process twin. distinct_nontrivial = distinct (store-form sequence hash, placement, stepping, build) cases that emitted at least one byte",
            components_real: &["devices::serial::SerialComms set_data/set_control -> io::stdout() -> fd 1", "IO::set_byte routing, mem::memory_write_byte/_write_word/_push_word", "interpreter and translated code for every store form", "cache low-space path (diagnostic must stay off stdout)", "real executable: main.rs load path + headless shell loop"],
            components_stub: &["fd 1 is a memfd (in process), a pipe or a regular file (real executable); never a failing sink"],
            assumptions: &["expected output is derived from the replica's own bus-write trace, so CPU-semantics differences between modes are C01/C04's subject, not this check's", "the banner printed before the ROM starts ('Loading \"<title>\"' + newline) is expected on the real executable's stdout"],
            fault_kinds: &["arena (small translation arena: low-space path)", "flush", "sink (memfd / pipe / regular file)", "step (instruction vs block stepping)"],
        }
    }

    fn generate(&self, rng: &mut Rng, index: u64, thorough: bool, case: &mut Case) {
        case.set("cart_type", rng.pick(&[0i64, 0, 1, 0x11]));
        case.set("rom_code", if case.get("cart_type") == 0 { 0 } else { 1 });
        case.set("ram_code", 3);
        case.set("rom_fill", 0);
        case.set("ramfill", 0);
        let binary = index % 16 == 15;
        case.set("binary", binary as i64);
        let in_ram = !binary && rng.chance(1, 3);
        case.set("in_ram", in_ram as i64);
        case.set("block", rng.below(2) as i64);
        let small_arena = !binary && rng.chance(1, 4);
        let n = if small_arena { rng.range(30, 90) as usize } else { rng.range(2, if thorough { 60 } else { 24 }) as usize };
        let code = gen_code(rng, !in_ram, n);
        case.blobs.insert(patch_key(CODE_AT as usize), code);
        // CALL target / RST 28 vector: restore SP, continue at HL
        case.blobs.insert(patch_key(CALL_TARGET as usize), vec![0x31, 0xf0, 0xdf, 0xe9]);
        case.blobs.insert(patch_key(0x28), vec![0x31, 0xf0, 0xdf, 0xe9]);
        // interrupt vectors and 0x0000 (where a cancelled dispatch continues): the same
        for v in [0x00usize, 0x40, 0x48, 0x50, 0x58, 0x60] {
            case.blobs.insert(patch_key(v), vec![0x31, 0xf0, 0xdf, 0xe9]);
        }
        // entry: JP CODE_AT (the header's entry point jumps to 0x0150)
        case.blobs.insert(patch_key(0x150), vec![0x31, 0xf0, 0xdf, 0xc3, CODE_AT as u8, (CODE_AT >> 8) as u8]);
        if small_arena {
            case.set("arena", rng.pick(&[0x1000i64, 0x1000, 0x2000]));
        }
        if binary {
            case.set("updates", rng.range(20, 600));
            case.set("sink", rng.below(2) as i64);
            case.set("binjit", ((index / 16) % 2) as i64);
        } else {
            let total = rng.range(10, 400);
            let mut left = total;
            while left > 0 {
                let k = rng.range(1, 40).min(left);
                case.push("s", &[k]);
                left -= k;
                if rng.chance(1, 6) {
                    case.push("f", &[]);
                }
            }
        }
    }

    fn run(&self, case: &Case, ctx: &mut Ctx) -> Vec<Violation> {
        if case.get("binary") != 0 {
            return run_binary(case, ctx);
        }
        let arena = case.get("arena");
        crate::machine::set_arena_size(if arena > 0 { (arena as usize).max(0x1000) } else { 0 });
        let built = replicas(case, &[true, false]);
        crate::machine::set_arena_size(0);
        let (_img, mut reps) = match built {
            Ok(x) => x,
            Err(_) => return vec![],
        };
        let in_ram = case.get("in_ram") != 0;
        let block = case.get("block") != 0;
        let code = case.blob(&patch_key(CODE_AT as usize)).to_vec();
        let mut out = Vec::new();
        let mut sb = [0u8; 2];
        let mut emitted = 0u64;
        for m in reps.iter_mut() {
            let pc = if in_ram {
                let n = code.len().min(0x1000);
                m.wram()[0x800..0x800 + n].copy_from_slice(&code[..n]);
                RAM_AT
            } else {
                CODE_AT
            };
            m.set_regs(Regs { af: 0, bc: 0, de: 0, hl: 0xc100, sp: 0xdff0, ip: pc as u32, cycles: 0 });
        }
        let _ = crate::capture::take();
        let names = ["jit", "non-jit"];
        let mut modes_in_step = true;
        'ops: for (opi, op) in case.ops.iter().enumerate() {
            match op.k {
                "f" => {
                    crate::machine::set_arena_size(if arena > 0 { (arena as usize).max(0x1000) } else { 0 });
                    reps[0].flush_cache();
                    crate::machine::set_arena_size(0);
                    ctx.cov.hit("fault.flush");
                }
                "s" => {
                    for _ in 0..op.arg(0).clamp(0, 5000) {
                        // what each build emitted in this step, and where the step started
                        let mut step_out: [(u32, Vec<u8>); 2] = [(0, Vec::new()), (0, Vec::new())];
                        for (i, m) in reps.iter_mut().enumerate() {
                            let pc = m.regs().ip;
                            if i == 0 && arena > 0 {
                                crate::machine::set_arena_size((arena as usize).max(0x1000));
                            }
                            let entries_before = if i == 0 && arena > 0 { m.cache_entries().len() } else { 0 };
                            m.trace_start();
                            let r = step(m.as_mut(), block, i == 0);
                            if i == 0 && arena > 0 && m.cache_entries().len() < entries_before {
                                ctx.cov.hit("fault.arena_full_cache_emptied");
                            }
                            let trace = m.trace_take();
                            crate::machine::set_arena_size(0);
                            let got = crate::capture::take();
                            if let Err(e) = r {
                                if e.contains("does not fit") {
                                    ctx.cov.hit("probe.block_larger_than_reduced_arena");
                                } else {
                                    ctx.cov.hit("run_ended_by_panic");
                                }
                                break 'ops;
                            }
                            let want = fold(&trace, &mut sb[i]);
                            if got != want {
                                let kind = if got.len() > want.len() && got.ends_with(&want) || (want.is_empty() && !got.is_empty()) {
                                    "extra-bytes"
                                } else if got.len() < want.len() {
                                    "missing-bytes"
                                } else {
                                    "wrong-bytes"
                                };
                                out.push(Violation::new("C18", format!("C18/{}/{}", kind, names[i]), format!("op {} (step at pc {:#06x}, {} build, {}): fd 1 received {:02x?}, the serial writes of this step call for {:02x?}", opi, pc, names[i], if block { "block step" } else { "instruction step" }, &got[..got.len().min(48)], &want[..want.len().min(48)])));
                                break 'ops;
                            }
                            emitted += want.len() as u64;
                            step_out[i] = (pc, got);
                            if m.cache_space() < 0x1000 && i == 0 {
                                ctx.cov.hit("probe.steps_with_arena_below_low_space_threshold");
                            }
                        }
                        // "in both execution modes": the same step of the same program emits the same bytes whether it ran as
                        // translated code or in the interpreter (a store the translator drops leaves no bus write to fold)
                        if modes_in_step && step_out[0].0 == step_out[1].0 {
                            if step_out[0].1 != step_out[1].1 {
                                out.push(Violation::new("C18", "C18/modes-differ".to_string(), format!("op {} (step at pc {:#06x}, {}): the jit build emitted {:02x?}, the non-jit build {:02x?}", opi, step_out[0].0, if block { "block step" } else { "instruction step" }, &step_out[0].1[..step_out[0].1.len().min(48)], &step_out[1].1[..step_out[1].1.len().min(48)])));
                                break 'ops;
                            }
                        } else {
                            modes_in_step = false; // the two builds are no longer at the same place (C04's subject)
                        }
                    }
                }
                _ => {}
            }
        }
        ctx.cov.add("probe.serial_bytes_checked", emitted);
        ctx.cov.hit(if in_ram { "placement.ram" } else { "placement.rom" });
        if emitted > 0 {
            ctx.cov.mark("distinct", crate::prng::hash_bytes(&code) ^ (in_ram as u64) << 1 ^ block as u64);
        }
        out
    }
}

fn run_binary(case: &Case, ctx: &mut Ctx) -> Vec<Violation> {
    let jit = case.get("binjit") != 0;
    let exe = bin_path(jit);
    if !exe.exists() {
        ctx.cov.hit("binary_missing");
        return vec![Violation::new("C18", "C18/harness/binary-missing".to_string(), format!("{} not built", exe.display()))];
    }
    let updates = case.get("updates").clamp(1, 100000) as u64;
    // twin in process
    let (_img, mut reps) = match replicas(case, &[jit]) {
        Ok(x) => x,
        Err(_) => return vec![],
    };
    let m = reps[0].as_mut();
    let mut sb = 0u8;
    let mut want: Vec<u8> = b"Loading \"VERIFSIM\"\n".to_vec();
    let _ = crate::capture::take();
    for _ in 0..updates {
        m.trace_start();
        let r = std::panic::catch_unwind(std::panic::AssertUnwindSafe(|| m.update()));
        let t = m.trace_take();
        if r.is_err() {
            let _ = crate::driver::take_panic();
            ctx.cov.hit("twin_panicked_case_skipped");
            return vec![];
        }
        want.extend(fold(&t, &mut sb));
    }
    let _ = crate::capture::take();
    // the ROM as a regular file
    let dir = crate::driver::work_dir();
    let path = dir.join(format!("c18-{}-{}.gb", std::process::id(), case.index));
    {
        let f = crate::cart::MemFile::new("tmp");
        crate::cart::write_image(case, &f);
        let data = f.read_from(0);
        if std::fs::write(&path, &data).is_err() {
            return vec![];
        }
    }
    let to_file = case.get("sink") != 0;
    let out_path = dir.join(format!("c18-{}-{}.out", std::process::id(), case.index));
    let mut cmd = std::process::Command::new(&exe);
    cmd.arg(&path).env("GB_DYNAREC_VERIF_MAX_UPDATES", updates.to_string()).stdin(std::process::Stdio::null()).stderr(std::process::Stdio::null());
    let got: Vec<u8>;
    let status;
    if to_file {
        let f = std::fs::File::create(&out_path).expect("create out file");
        cmd.stdout(f);
        status = cmd.status();
        got = std::fs::read(&out_path).unwrap_or_default();
        let _ = std::fs::remove_file(&out_path);
        ctx.cov.hit("fault.sink_regular_file");
    } else {
        cmd.stdout(std::process::Stdio::piped());
        let mut child = match cmd.spawn() {
            Ok(c) => c,
            Err(_) => return vec![],
        };
        let mut buf = Vec::new();
        let _ = child.stdout.take().unwrap().read_to_end(&mut buf);
        status = child.wait();
        got = buf;
        ctx.cov.hit("fault.sink_pipe");
    }
    let _ = std::fs::remove_file(&path);
    let build = if jit { "jit" } else { "non-jit" };
    match status {
        Ok(s) if s.success() => {}
        Ok(s) => {
            return vec![Violation::new("C18", format!("C18/binary-died/{}", build), format!("real executable ({} build) ended with {:?} before its update budget", build, s))];
        }
        Err(_) => return vec![],
    }
    ctx.cov.add("probe.binary_bytes_checked", got.len() as u64);
    ctx.cov.hit(if jit { "binary.jit" } else { "binary.nonjit" });
    if got != want {
        let first = (0..got.len().min(want.len())).find(|&i| got[i] != want[i]).unwrap_or(got.len().min(want.len()));
        return vec![Violation::new("C18", format!("C18/binary-stdout/{}", build), format!("real executable ({} build, {} updates, stdout on a {}): {} bytes, expected {}; first difference at offset {}: got {:02x?}, expected {:02x?}", build, updates, if to_file { "file" } else { "pipe" }, got.len(), want.len(), first, &got[first..got.len().min(first + 16)], &want[first..want.len().min(first + 16)]))];
    }
    if want.len() > 19 {
        ctx.cov.mark("distinct", crate::prng::hash_bytes(&want) ^ jit as u64);
    }
    vec![]
}
