use crate::case::Case;
use crate::cov::Cov;
use crate::prng::Rng;

#[derive(Clone, Debug)]
pub struct Violation {
    pub property: String,
    /// narrow class of the failure; minimisation keeps it fixed
    pub signature: String,
    pub detail: String,
}

impl Violation {
    pub fn new(property: &str, signature: String, detail: String) -> Violation {
        Violation { property: property.to_string(), signature, detail }
    }
}

pub struct Ctx<'a> {
    pub cov: &'a mut Cov,
    /// property id whose oracle is evaluated
    pub focus: &'a str,
    pub thorough: bool,
}

pub struct Info {
    pub rule: &'static str,
    pub components_real: &'static [&'static str],
    pub components_stub: &'static [&'static str],
    pub assumptions: &'static [&'static str],
    pub fault_kinds: &'static [&'static str],
}

pub trait Scenario: Sync {
    fn name(&self) -> &'static str;
    /// run cases in worker subprocesses (process death is an observation)
    fn isolated(&self) -> bool {
        true
    }
    /// number of runs in the quick tier
    fn quick_runs(&self, focus: &str) -> u64;
    /// indices per worker chunk
    fn chunk(&self) -> u64 {
        512
    }
    fn generate(&self, rng: &mut Rng, index: u64, thorough: bool, case: &mut Case);
    fn run(&self, case: &Case, ctx: &mut Ctx) -> Vec<Violation>;
    fn info(&self) -> Info;
    /// which property an abnormal worker death violates under this focus (None: inconclusive)
    fn death_property(&self, focus: &str) -> Option<&'static str>;
    /// scenario-specific shrink candidates tried in addition to the generic passes
    fn shrink_hints(&self, _case: &Case) -> Vec<Case> {
        Vec::new()
    }
}

pub mod block_lockstep;
pub mod bus_crash;
pub mod bus_history;
pub mod cache_bank_history;
pub mod dma_batches;
pub mod frame_render;
pub mod ime_sequences;
pub mod irq_dispatch;
pub mod joypad_events;
pub mod lcd_batches;
pub mod mbc_history;
pub mod program_lockstep;
pub mod rom_load_faults;
pub mod serial_stdout;
pub mod time_conservation;
pub mod timer_batches;

pub fn all() -> Vec<&'static dyn Scenario> {
    vec![&timer_batches::TimerBatches, &block_lockstep::BlockLockstep, &bus_crash::BusCrash, &mbc_history::MbcHistory, &cache_bank_history::CacheBankHistory, &joypad_events::JoypadEvents, &lcd_batches::LcdBatches, &dma_batches::DmaBatches, &bus_history::BusHistory, &irq_dispatch::IrqDispatch, &ime_sequences::ImeSequences, &program_lockstep::ProgramLockstep, &time_conservation::TimeConservation, &serial_stdout::SerialStdout, &rom_load_faults::RomLoadFaults, &frame_render::FrameRender]
}

pub fn by_name(name: &str) -> Option<&'static dyn Scenario> {
    all().into_iter().find(|s| s.name() == name)
}

/// property id -> scenarios that decide it (all are run; evidence is merged)
pub fn plan(property: &str) -> Vec<&'static str> {
    match property {
        "C01" | "C02" => vec!["block_lockstep"],
        "C03" => vec!["cache_bank_history"],
        "C04" => vec!["program_lockstep"],
        "C07" => vec!["irq_dispatch"],
        "C08" => vec!["ime_sequences"],
        "C09" => vec!["time_conservation"],
        "C10" => vec!["bus_history"],
        "C11" => vec!["bus_crash"],
        "C12" => vec!["mbc_history"],
        "C13" => vec!["timer_batches"],
        "C14" => vec!["lcd_batches"],
        "C15" => vec!["frame_render"],
        "C16" => vec!["dma_batches"],
        "C17" => vec!["joypad_events"],
        "C18" => vec!["serial_stdout"],
        "C19" => vec!["rom_load_faults"],
        _ => vec![],
    }
}

pub fn level_of(property: &str) -> &'static str {
    match property {
        "C11" | "C19" => "fault_enumeration",
        _ => "exploration",
    }
}
