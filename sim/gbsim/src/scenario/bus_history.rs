//! C10 — bus address decoding: histories of reads/writes (byte, word, fetch
//! view) interleaved with device time, an OAM DMA in flight, bank switches and
//! joypad events, against RefBus; probe sweeps after every write and full
//! 65536-address sweeps at intervals.

use super::{Ctx, Info, Scenario, Violation};
use crate::case::Case;
use crate::machine::Machine;
use crate::model::bus::{Expect, RefBus};
use crate::prng::Rng;
use crate::setup::{model_of, replicas};
use crate::sm83;

pub struct BusHistory;

pub const EDGES: [u16; 22] = [
    0x3fff, 0x4000, 0x7fff, 0x8000, 0x9fff, 0xa000, 0xbfff, 0xc000, 0xcfff, 0xd000, 0xdfff, 0xe000, 0xfdff, 0xfe00, 0xfe9f, 0xfea0, 0xfeff, 0xff00, 0xff7f, 0xff80, 0xfffe, 0xffff,
];
pub const IO_REGS: [u16; 22] = [
    0xff00, 0xff01, 0xff02, 0xff04, 0xff05, 0xff06, 0xff07, 0xff0f, 0xff40, 0xff41, 0xff42, 0xff43, 0xff44, 0xff45, 0xff46, 0xff47, 0xff48, 0xff49, 0xff4a, 0xff4b, 0xff03, 0xff4d,
];

pub fn region_of(a: u16) -> u64 {
    match a {
        0x0000..=0x3fff => 0,
        0x4000..=0x7fff => 1,
        0x8000..=0x9fff => 2,
        0xa000..=0xbfff => 3,
        0xc000..=0xcfff => 4,
        0xd000..=0xdfff => 5,
        0xe000..=0xfdff => 6,
        0xfe00..=0xfe9f => 7,
        0xfea0..=0xfeff => 8,
        0xff00..=0xff7f => 9,
        0xff80..=0xfffe => 10,
        0xffff => 11,
    }
}
const REGION_NAMES: [&str; 12] = ["rom0", "romN", "vram", "cart-ram", "wram0", "wram1", "echo", "oam", "unused-fea0", "io", "hram", "ie"];

fn is_storage(a: u16) -> bool {
    matches!(a, 0x8000..=0xdfff | 0xfe00..=0xfe9f | 0xff80..=0xffff)
}

fn draw_addr(rng: &mut Rng) -> u16 {
    match rng.below(10) {
        0 | 1 => (rng.pick(&EDGES) as i32 + rng.range(-2, 2) as i32) as u16,
        2 | 3 => rng.pick(&IO_REGS),
        4 => sm83::pointer(rng, false),
        5 => 0xff80 + rng.below(0x80) as u16,
        6 => 0xfe00 + rng.below(0x100) as u16,
        7 => 0xa000 + rng.below(0x2000) as u16,
        _ => rng.word(),
    }
}

/// compare one read with the model; returns a violation description on mismatch
fn check_read(m: &mut dyn Machine, model: &mut RefBus, a: u16, ctx_what: &str) -> Option<(String, String)> {
    let exp = model.expect(a);
    let got = m.read(a);
    if model.observe(a, got) {
        return None;
    }
    let r = REGION_NAMES[region_of(a) as usize];
    match exp {
        Expect::Bits { value, mask } => Some((format!("C10/read/{}", if region_of(a) == 9 { format!("io-{:02x}", a & 0xff) } else { r.to_string() }), format!("{}: read {:#06x} = {:#04x}, reference {:#04x} (mask {:#04x})", ctx_what, a, got, value, mask))),
        Expect::Constant => Some((format!("C10/unmapped-not-constant/{}", r), format!("{}: unmapped address {:#06x} read {:#04x}, earlier {:#04x}", ctx_what, a, got, model.constants.get(&a).copied().unwrap_or(0)))),
        Expect::Unspecified => Some((format!("C10/read/{}", r), format!("{}: read {:#06x} = {:#04x} contradicts every admissible reference state", ctx_what, a, got))),
    }
}

impl Scenario for BusHistory {
    fn name(&self) -> &'static str {
        "bus_history"
    }
    fn quick_runs(&self, _f: &str) -> u64 {
        7200
    }
    fn chunk(&self) -> u64 {
        100
    }
    fn death_property(&self, _f: &str) -> Option<&'static str> {
        Some("C10")
    }
    fn info(&self) -> Info {
        Info {
            rule: "one case = one cartridge built by read_header + Core::from_rom_file (every supported type; cartridge RAM of every size incl. none) + a seeded history of byte/word writes and reads, fetch-view requests, elapsed-time gaps, OAM DMA starts, bank-register writes and joypad events at boundary-biased addresses (every region edge +-2, every I/O register, uniform); after every write a probe sweep reads the written address, its aliases under single-bit strides and the echo/HRAM<->I/O counterparts, all region edges and a drawn sample, and every 64 operations (and at the end) all 65536 addresses are compared with RefBus; a write to a storage region must not change what is read anywhere else. distinct_nontrivial = distinct (write region, probe region, access kind) triples compared",
            components_real: &["mem::memory_read_byte/_write_byte/_read_word/_write_word, get_executable_memory_slice", "devices::io::IO set_byte/get_byte/run_clock_cycles and the timer/LCD/joypad behind the readable registers", "cart bank state, MemoryAreas::with_rom_file, MemoryAreas::run_clock_cycles incl. OAM DMA as second bus master"],
            components_stub: &["CPU absent: the simulator is the bus master"],
            assumptions: &["cartridge RAM kept enabled (0x0A) and MBC3 RTC selection avoided: gating is not specified", "reads of cartridge-RAM addresses the cartridge does not have, of 0xFF01/0xFF02/0xFF46 and of P1 bits 6-7 / STAT bit 7 / IF bits 5-7 are not value-checked (only: a storage write elsewhere must not change them)", "LCDC bit 7 kept set in three cases of four; in the fourth it may be cleared, after which LY, STAT bits 0-2 and IF bits 0-1 are not asserted (display-off behaviour is not specified)", "unmapped addresses: one constant per address, discovered on first read", "time gaps are multiples of 4 clocks"],
            fault_kinds: &["step (device time between accesses)", "dma (second bus master in flight)", "bank (register writes between write and read-back)", "joy (press/release)"],
        }
    }

    fn generate(&self, rng: &mut Rng, index: u64, thorough: bool, case: &mut Case) {
        let cfg = index as usize;
        let cart_type = crate::cart::CART_TYPES[cfg % 7];
        case.set("cart_type", cart_type as i64);
        // mostly small ROMs; one configuration in four has 64 or 128 banks so that MBC1's upper bank bits matter
        case.set("rom_code", if cart_type == 0 { 0 } else { [0i64, 1, 3, if cfg % 2 == 0 { 5 } else { 6 }][(cfg / 7) % 4] });
        case.set("ram_code", crate::cart::RAM_CODES[(cfg / 28) % 6] as i64);
        // large images are too big for a pattern fill: every bank carries its index instead
        case.set("rom_fill", if case.get("rom_code") >= 5 { 1 } else { 2 + rng.below(1 << 30) as i64 });
        case.set("ramfill", if rng.chance(1, 8) { 0 } else { 1 + rng.below(1 << 30) as i64 });
        if cart_type != 0 {
            case.push("w", &[0x0000, 0x0a]);
        }
        if rng.chance(1, 2) {
            case.push("w", &[0xff40, (0x80 | rng.byte()) as i64]);
            case.push("w", &[0xff07, rng.below(8) as i64]);
            case.push("w", &[0xff41, (rng.byte() & 0x78) as i64]);
        }
        let n = rng.range(20, if thorough { 400 } else { 160 });
        for _ in 0..n {
            match rng.below(24) {
                0..=8 => {
                    let a = draw_addr(rng);
                    case.push("w", &[a as i64, rng.byte_b() as i64]);
                }
                9..=12 => case.push("r", &[draw_addr(rng) as i64]),
                13 => case.push("rw", &[draw_addr(rng) as i64]),
                14 | 15 => case.push("ww", &[draw_addr(rng) as i64, rng.word() as i64]),
                16 => {
                    let a = match rng.below(4) {
                        0 => rng.below(0x8000) as u16,
                        1 => 0xc000 + rng.below(0x2000) as u16,
                        2 => 0xff80 + rng.below(0x7f) as u16,
                        _ => rng.pick(&[0x3ffeu16, 0x3fff, 0x4000, 0x7ffe, 0x7fff, 0xcfff, 0xd000, 0xdfff, 0xff80, 0xfffe, 0xc000]),
                    };
                    case.push("fv", &[a as i64]);
                }
                17 | 18 => {
                    let c = match rng.below(4) {
                        0 => 4 * rng.below(8),
                        1 => 4 * rng.below(200),
                        2 => 4 * rng.below(3000),
                        _ => rng.pick(&[456u64, 70224, 640, 1024]),
                    };
                    case.push("adv", &[c as i64]);
                }
                19 => case.push("w", &[0xff46, rng.pick(&[0x00u8, 0x3f, 0x40, 0x7f, 0x80, 0x9f, 0xa0, 0xbf, 0xc0, 0xd0, 0xdf, 0xe0, 0xfd, 0xfe, 0xff, 0xc1]) as i64]),
                20 | 21 => {
                    let (reg, v) = match rng.below(4) {
                        0 | 1 => (0x2000 + rng.below(0x2000) as i64, if rng.chance(1, 2) { rng.byte_b() as i64 } else { rng.pick(&[0i64, 1, 0x1f, 0x20, 0x21, 0x3f, 0x40, 0x41, 0x60, 0x7f]) }),
                        2 => (0x4000 + rng.below(0x2000) as i64, rng.below(4) as i64),
                        _ => (0x6000 + rng.below(0x2000) as i64, rng.below(2) as i64),
                    };
                    case.push("w", &[reg, v]);
                    if rng.chance(1, 2) {
                        // what instruction fetch sees in the window right after the mapping may have changed
                        // (large images differ between banks only at their start, middle and end: aim there)
                        let a = match rng.below(4) {
                            0 => 0x4000 + rng.below(0x4000) as i64,
                            1 => 0x4000,
                            2 => 0x5ff0,
                            _ => 0x7ff0,
                        };
                        case.push("fv", &[a]);
                    }
                }
                22 => {
                    if rng.chance(1, 2) {
                        case.push("j", &[rng.below(8) as i64, rng.below(2) as i64]);
                    } else {
                        // STAT written and read back while LY = LYC (and once more after LYC moved away)
                        case.push("lycm", &[]);
                        case.push("w", &[0xff41, rng.byte() as i64]);
                        case.push("r", &[0xff41]);
                        case.push("w", &[0xff41, rng.byte() as i64]);
                        case.push("r", &[0xff41]);
                        if rng.chance(1, 2) {
                            case.push("w", &[0xff45, rng.byte() as i64]);
                            case.push("w", &[0xff41, rng.byte() as i64]);
                            case.push("r", &[0xff41]);
                        }
                    }
                }
                _ => case.push("sweep", &[]),
            }
        }
        case.push("sweep", &[]);
    }

    fn run(&self, case: &Case, ctx: &mut Ctx) -> Vec<Violation> {
        let (_img, mut reps) = match replicas(case, &[false]) {
            Ok(x) => x,
            Err(_) => return vec![],
        };
        let m = reps[0].as_mut();
        let mut model = model_of(case, m);
        let mbc3 = case.get("cart_type") >= 0x11;
        // one case in four may switch the display off (LCDC read-back with bit 7 clear); LY/STAT status are then not asserted
        let lcd_off_allowed = case.index % 4 == 2;
        let mut out = Vec::new();
        let mut clocks = 0u64;
        let fail = |sig: String, detail: String| Violation::new("C10", sig, detail);
        let mut probe_seed = case.seed ^ 0x1234;

        for (opi, op) in case.ops.iter().enumerate() {
            let what = format!("op {} {:?}", opi, op);
            if opi > 0 && opi % 64 == 0 {
                if let Some(v) = full_sweep(m, &mut model, &what) {
                    out.push(fail(v.0, v.1));
                    return out;
                }
                ctx.cov.hit("probe.full_sweeps");
            }
            match op.k {
                "w" | "ww" | "lycm" => {
                    // "lycm": LYC := the line the LCD is on right now, so that the writes and reads that follow meet LY = LYC
                    let (a, v0) = if op.k == "lycm" { (0xff45u16, m.read(0xff44) as i64) } else { (op.arg(0) as u16, op.arg(1)) };
                    if op.k == "lycm" {
                        ctx.cov.hit("probe.lyc_set_to_current_line");
                    }
                    let mut bytes: Vec<(u16, u8)> = vec![(a, v0 as u8)];
                    if op.k == "ww" {
                        bytes.push((a.wrapping_add(1), (op.arg(1) >> 8) as u8));
                    }
                    // keep inside what the statement defines
                    for b in bytes.iter_mut() {
                        if b.0 < 0x2000 {
                            b.1 = 0x0a;
                        }
                        if mbc3 && (0x4000..0x6000).contains(&b.0) {
                            b.1 &= 3;
                        }
                        if b.0 == 0xff40 && !lcd_off_allowed {
                            b.1 |= 0x80;
                        }
                    }
                    // probes whose value the model leaves open must not react to a storage write elsewhere
                    let open: Vec<u16> = [0xff46u16, 0xff01, 0xff02, 0xa000, 0xa7ff, 0xa800, 0xbfff, 0xe000, 0xfdff, 0xfea0, 0xfeff, 0xff03, 0xff7f, 0xff10].to_vec();
                    let all_storage = bytes.iter().all(|b| is_storage(b.0));
                    let before: Vec<u8> = if all_storage { open.iter().map(|&p| m.read(p)).collect() } else { vec![] };
                    if op.k == "ww" {
                        m.write_word(a, (bytes[0].1 as u16) | (bytes[1].1 as u16) << 8);
                    } else {
                        m.write(a, bytes[0].1);
                    }
                    for b in &bytes {
                        model.write(b.0, b.1);
                    }
                    if all_storage {
                        for (i, &p) in open.iter().enumerate() {
                            if bytes.iter().any(|b| b.0 == p) {
                                continue;
                            }
                            let now = m.read(p);
                            if now != before[i] {
                                out.push(fail(format!("C10/write-visible-elsewhere/{}-at-{}", REGION_NAMES[region_of(a) as usize], REGION_NAMES[region_of(p) as usize]), format!("{}: the write changed what is read at {:#06x}: {:#04x} -> {:#04x}", what, p, before[i], now)));
                                return out;
                            }
                        }
                    }
                    if model.dma.is_some() {
                        ctx.cov.hit("fault.access_with_dma_in_flight");
                    }
                    // probe sweep
                    let mut probes: Vec<u16> = Vec::with_capacity(64);
                    for b in &bytes {
                        probes.push(b.0);
                        for bit in 0..16 {
                            probes.push(b.0 ^ (1 << bit));
                        }
                        probes.push(b.0.wrapping_add(0x2000));
                        probes.push(b.0.wrapping_sub(0x2000));
                        probes.push(b.0.wrapping_add(1));
                        probes.push(b.0.wrapping_sub(1));
                    }
                    probes.extend(EDGES);
                    for _ in 0..8 {
                        probes.push(crate::prng::splitmix(&mut probe_seed) as u16);
                    }
                    for p in probes {
                        if let Some(v) = check_read(m, &mut model, p, &what) {
                            out.push(fail(v.0, v.1));
                            return out;
                        }
                        ctx.cov.mark("distinct", region_of(a) << 8 | region_of(p) << 4 | (op.k == "ww") as u64);
                    }
                }
                "r" => {
                    let a = op.arg(0) as u16;
                    if let Some(v) = check_read(m, &mut model, a, &what) {
                        out.push(fail(v.0, v.1));
                        return out;
                    }
                    ctx.cov.mark("distinct", 0xf000 | region_of(a) << 4 | 2);
                }
                "rw" => {
                    let a = op.arg(0) as u16;
                    let got = m.read_word(a);
                    for (i, aa) in [a, a.wrapping_add(1)].iter().enumerate() {
                        let g = (got >> (8 * i)) as u8;
                        let exp = model.expect(*aa);
                        if !model.observe(*aa, g) {
                            out.push(fail(format!("C10/word-read/{}", REGION_NAMES[region_of(*aa) as usize]), format!("{}: 16-bit read, byte {} (address {:#06x}) = {:#04x}, reference {:?}", what, i, aa, g, exp)));
                            return out;
                        }
                    }
                    ctx.cov.mark("distinct", 0xf000 | region_of(a) << 4 | 3);
                }
                "fv" => {
                    let a = op.arg(0) as u16;
                    let fetchable = matches!(a, 0x0000..=0x7fff | 0xc000..=0xdfff | 0xff80..=0xfffe);
                    if !fetchable {
                        continue;
                    }
                    let view = m.fetch_view(a as usize, 24);
                    if a < 0x8000 {
                        // the translator reads guest code through a function of its own: same bytes required
                        let tview = m.fetch_view_translator(a as usize, 24);
                        if tview != view {
                            out.push(fail(format!("C10/fetch-view/translator-differs/{}", REGION_NAMES[region_of(a) as usize]), format!("{}: at {:#06x} the translator reads {:02x?}, the interpreter {:02x?}", what, a, &tview[..tview.len().min(8)], &view[..view.len().min(8)])));
                            return out;
                        }
                    }
                    if view.is_empty() {
                        out.push(fail(format!("C10/fetch-view-empty/{}", REGION_NAMES[region_of(a) as usize]), format!("{}: no bytes visible to instruction fetch at {:#06x}", what, a)));
                        return out;
                    }
                    for (i, b) in view.iter().enumerate() {
                        let aa = a as usize + i;
                        if aa > 0xffff {
                            break;
                        }
                        // the view must stay inside the region it started in
                        if region_of(aa as u16) != region_of(a) && !(region_of(a) == 4 && region_of(aa as u16) == 5 && false) {
                            out.push(fail(format!("C10/fetch-view-overruns-region/{}", REGION_NAMES[region_of(a) as usize]), format!("{}: fetch view from {:#06x} has {} bytes, running past its region", what, a, view.len())));
                            return out;
                        }
                        if let Expect::Bits { value, mask: 0xff } = model.expect(aa as u16) {
                            if value != *b {
                                out.push(fail(format!("C10/fetch-view/{}", REGION_NAMES[region_of(a) as usize]), format!("{}: instruction fetch sees {:#04x} at {:#06x}, data read sees {:#04x}", what, b, aa, value)));
                                return out;
                            }
                        }
                    }
                    ctx.cov.mark("distinct", 0xf000 | region_of(a) << 4 | 4);
                }
                "adv" => {
                    let c = (op.arg(0).clamp(0, 1 << 18) as u64) & !3;
                    if c == 0 {
                        continue; // the step functions never catch devices up by zero cycles
                    }
                    m.clock(c as usize);
                    model.advance(c);
                    clocks += c;
                }
                "j" => {
                    let b = op.arg(0) as u8 & 7;
                    if op.arg(1) != 0 {
                        m.press(b);
                        model.joy.press(b);
                    } else {
                        m.release(b);
                        model.joy.release(b);
                    }
                    ctx.cov.hit("fault.joy_events");
                }
                "sweep" => {
                    if let Some(v) = full_sweep(m, &mut model, &what) {
                        out.push(fail(v.0, v.1));
                        return out;
                    }
                    ctx.cov.hit("probe.full_sweeps");
                }
                _ => {}
            }
        }
        ctx.cov.add("sim_clocks", clocks);
        ctx.cov.mark("configs", (case.get("cart_type") as u64) << 16 | (case.get("rom_code") as u64) << 8 | case.get("ram_code") as u64);
        out
    }
}

fn full_sweep(m: &mut dyn Machine, model: &mut RefBus, what: &str) -> Option<(String, String)> {
    for a in 0..=0xffffu16 {
        if let Some(v) = check_read(m, model, a, &format!("{} (full sweep)", what)) {
            return Some(v);
        }
    }
    None
}
