//! C13 — DIV/TIMA vs a per-clock reference, under three partitions of the same
//! timed history (P1 = clock by clock, Pmax = one batch per gap, Prand = drawn).

use super::{Ctx, Info, Scenario, Violation};
use crate::case::Case;
use crate::machine::{IntMachine, Machine};
use crate::model::timer::RefTimer;
use crate::prng::Rng;
use gb_int::devices::timer::Timer;
use gb_int::timing::ClockCycles;

pub struct TimerBatches;

const SIZES: [u64; 15] = [1, 3, 4, 15, 16, 17, 63, 64, 255, 256, 1023, 1024, 65535, 65536, 70224];

trait Dev {
    fn adv(&mut self, clocks: u64) -> u64; // returns 1 if a request was flagged in this batch
    fn tac(&mut self, v: u8) -> u64;
    fn div(&mut self);
    fn tima(&mut self, v: u8);
    fn tma(&mut self, v: u8);
    fn obs(&mut self) -> [u8; 4];
}

struct Direct(Timer);
impl Dev for Direct {
    fn adv(&mut self, clocks: u64) -> u64 {
        (self.0.run_cycles(ClockCycles(clocks as usize)).as_u8() >> 2) as u64 & 1
    }
    fn tac(&mut self, v: u8) -> u64 {
        (self.0.set_timer_control(v).as_u8() >> 2) as u64 & 1
    }
    fn div(&mut self) {
        self.0.reset_divider()
    }
    fn tima(&mut self, v: u8) {
        self.0.set_counter(v)
    }
    fn tma(&mut self, v: u8) {
        self.0.set_modulo(v)
    }
    fn obs(&mut self) -> [u8; 4] {
        [self.0.get_divider(), self.0.get_counter(), self.0.get_modulo(), self.0.get_timer_control() & 7]
    }
}

struct Bus(Box<dyn Machine>);
impl Bus {
    fn take_req(&mut self) -> u64 {
        let f = self.0.read(0xff0f);
        if f & 4 != 0 {
            self.0.write(0xff0f, f & 0x1f & !4);
            1
        } else {
            0
        }
    }
}
impl Dev for Bus {
    fn adv(&mut self, clocks: u64) -> u64 {
        self.0.clock(clocks as usize);
        self.take_req()
    }
    fn tac(&mut self, v: u8) -> u64 {
        self.0.write(0xff07, v);
        self.take_req()
    }
    fn div(&mut self) {
        self.0.write(0xff04, 0x5a);
        // a request raised by the DIV write itself is unspecified: collect and drop it
        self.take_req();
    }
    fn tima(&mut self, v: u8) {
        self.0.write(0xff05, v)
    }
    fn tma(&mut self, v: u8) {
        self.0.write(0xff06, v)
    }
    fn obs(&mut self) -> [u8; 4] {
        [self.0.read(0xff04), self.0.read(0xff05), self.0.read(0xff06), self.0.read(0xff07) & 7]
    }
}

fn make(bus: bool) -> Box<dyn Dev> {
    if bus {
        Box::new(Bus(IntMachine::from_code(vec![0x18, 0xfe])))
    } else {
        Box::new(Direct(Timer::new()))
    }
}

impl Scenario for TimerBatches {
    fn name(&self) -> &'static str {
        "timer_batches"
    }
    fn quick_runs(&self, _f: &str) -> u64 {
        24000
    }
    fn chunk(&self) -> u64 {
        128
    }
    fn death_property(&self, _f: &str) -> Option<&'static str> {
        Some("C13")
    }
    fn info(&self) -> Info {
        Info {
            rule: "one case = one timed history of DIV/TIMA/TMA/TAC writes and elapsed-time gaps, executed on three replicas of the real Timer that differ only in how each gap is split into run_cycles batches (clock-by-clock, one batch, drawn partition) and on a per-clock reference; a case is non-trivial when the timer was enabled and at least one TIMA increment happened; distinct = distinct hash of (op kinds, TAC values, gap sizes, partition)",
            components_real: &["devices::timer::Timer (run_cycles, set_timer_control, reset_divider, set_counter, set_modulo, getters)", "bus mode: mem::memory_write_byte/read_byte 0xFF04-0xFF07/0xFF0F, MemoryAreas::run_clock_cycles, IO::run_clock_cycles"],
            components_stub: &["CPU absent: the simulator issues the register writes and decides batch sizes"],
            assumptions: &["a DIV write while the selected divider bit is high may or may not increment TIMA (statement names only the TAC-write edge); both outcomes accepted, counted as spec_set_forks", "TAC read-back compared on bits 0-2", "batch sizes <= 2^20 clocks; multiples of 4 in bus mode"],
            fault_kinds: &["step (batch partition)"],
        }
    }

    fn generate(&self, rng: &mut Rng, index: u64, thorough: bool, case: &mut Case) {
        let bus = index % 4 == 3;
        case.set("bus", bus as i64);
        let unit: u64 = if bus { 4 } else { 1 };
        let mut m = RefTimer::new();
        // initial phase: advance with timer disabled or enabled
        let n_ops = rng.range(4, if thorough { 60 } else { 30 });
        let span_cap: u64 = if bus { 1 << 15 } else if rng.chance(1, 10) { 1 << 20 } else { 1 << 16 };
        let mut total: u64 = 0;
        let tac_pool = [0u8, 1, 2, 3, 4, 5, 6, 7, 0xfc, 0xf9, 0x85];
        for i in 0..n_ops {
            let kind = if i == 0 { 0 } else { rng.below(10) };
            match kind {
                0 | 1 | 2 | 3 | 4 => {
                    // a gap
                    let mut gap: u64 = match rng.below(6) {
                        0 => rng.pick(&SIZES),
                        1 => {
                            // end exactly on / one before / one after the next falling edge or overflow
                            let e = m.clocks_to_edge();
                            let to_ovf = e + (0xff - m.tima as u64) * (1u64 << (m.bit() + 1));
                            let base = if rng.chance(1, 2) { e } else { to_ovf };
                            (base as i64 + rng.range(-1, 1) * unit as i64).max(0) as u64
                        }
                        2 => rng.below(64),
                        3 => rng.below(2048),
                        4 => rng.below(70000),
                        _ => rng.below(span_cap),
                    };
                    gap -= gap % unit;
                    if total + gap > span_cap * 4 {
                        gap = 0;
                    }
                    total += gap;
                    // drawn partition
                    let mut parts: Vec<i64> = vec![gap as i64];
                    let mut left = gap;
                    while left > 0 && parts.len() < 40 {
                        let mut p = match rng.below(4) {
                            0 => rng.pick(&SIZES),
                            1 => {
                                let mut mm = m.clone();
                                mm.advance(gap - left);
                                (mm.clocks_to_edge() as i64 + rng.range(-1, 1) * unit as i64).max(0) as u64
                            }
                            2 => rng.below(left + 1),
                            _ => rng.below(300),
                        };
                        p -= p % unit;
                        let p = p.min(left);
                        parts.push(p as i64);
                        left -= p;
                    }
                    if left > 0 {
                        parts.push(left as i64);
                    }
                    m.advance(gap);
                    case.ops.push(crate::case::Op { k: "adv", a: parts });
                }
                5 | 6 => {
                    let v = rng.pick(&tac_pool);
                    m.write_tac(v);
                    case.push("tac", &[v as i64]);
                }
                7 => {
                    m.write_div();
                    case.push("div", &[]);
                }
                8 => {
                    let v = if rng.chance(1, 2) { rng.pick(&[0xffu8, 0xfe, 0x00, 0xfd]) } else { rng.byte() };
                    m.tima = v;
                    case.push("tima", &[v as i64]);
                }
                _ => {
                    let v = rng.byte_b();
                    m.tma = v;
                    case.push("tma", &[v as i64]);
                }
            }
        }
    }

    fn run(&self, case: &Case, ctx: &mut Ctx) -> Vec<Violation> {
        let bus = case.get("bus") != 0;
        let unit: u64 = if bus { 4 } else { 1 };
        let mut p1 = make(bus);
        let mut pmax = make(bus);
        let mut prand = make(bus);
        // set of admissible model states (spec set)
        let mut models: Vec<RefTimer> = vec![RefTimer::new()];
        let mut out = Vec::new();
        let mut incs_seen = false;
        let mut sim_clocks = 0u64;
        let mut hkey: Vec<u64> = Vec::new();
        for (opi, op) in case.ops.iter().enumerate() {
            let mut req = [0u64; 3]; // requests seen by p1 (count), pmax (flag), prand (count of flagged batches)
            let mut model_req_before: Vec<u64> = models.iter().map(|m| m.requests).collect();
            match op.k {
                "adv" => {
                    let mut gap = op.arg(0).clamp(0, 1 << 22) as u64;
                    gap -= gap % unit;
                    sim_clocks += gap;
                    hkey.push(gap);
                    // P1
                    let mut i = 0;
                    while i < gap {
                        req[0] += p1.adv(unit);
                        i += unit;
                    }
                    // Pmax
                    req[1] += pmax.adv(gap);
                    // Prand: listed parts, then remainder
                    let mut left = gap;
                    let mut nparts = 0;
                    for j in 1..op.a.len() {
                        let mut p = op.arg(j).clamp(0, 1 << 22) as u64;
                        p -= p % unit;
                        let p = p.min(left);
                        req[2] += prand.adv(p);
                        left -= p;
                        nparts += 1;
                        hkey.push(p);
                    }
                    if left > 0 || nparts == 0 {
                        req[2] += prand.adv(left);
                    }
                    ctx.cov.add("step.batches", nparts as u64 + 2 + gap / unit);
                    for m in models.iter_mut() {
                        let t0 = m.tima;
                        let o0 = m.overflows;
                        m.advance(gap);
                        if m.tima != t0 || m.overflows != o0 {
                            incs_seen = true;
                        }
                        if m.overflows - o0 > 1 {
                            ctx.cov.hit("probe.batch_with_multiple_overflows");
                        }
                    }
                }
                "tac" => {
                    let v = op.arg(0) as u8;
                    hkey.push(0x1000 | v as u64);
                    req[0] += p1.tac(v);
                    req[1] += pmax.tac(v);
                    req[2] += prand.tac(v);
                    for m in models.iter_mut() {
                        let key = ((m.tac & 7) as u64) << 8 | ((v & 7) as u64) << 4 | (m.level() as u64) << 1 | ((m.div16 >> [9, 3, 5, 7][(v & 3) as usize]) & 1) as u64;
                        ctx.cov.mark("tac_write_cells", key);
                        let t0 = m.tima;
                        m.write_tac(v);
                        if m.tima != t0 {
                            ctx.cov.hit("probe.tac_write_falling_edge");
                            incs_seen = true;
                        }
                    }
                }
                "div" => {
                    hkey.push(0x2000);
                    p1.div();
                    pmax.div();
                    prand.div();
                    let mut forks = Vec::new();
                    for m in models.iter_mut() {
                        if m.write_div() {
                            let mut alt = m.clone();
                            alt.inc();
                            forks.push(alt);
                        }
                    }
                    if !forks.is_empty() {
                        ctx.cov.hit("spec_set_forks");
                        models.extend(forks);
                        model_req_before = models.iter().map(|m| m.requests).collect();
                    }
                }
                "tima" => {
                    let v = op.arg(0) as u8;
                    hkey.push(0x3000 | v as u64);
                    p1.tima(v);
                    pmax.tima(v);
                    prand.tima(v);
                    for m in models.iter_mut() {
                        m.tima = v;
                    }
                }
                "tma" => {
                    let v = op.arg(0) as u8;
                    hkey.push(0x4000 | v as u64);
                    p1.tma(v);
                    pmax.tma(v);
                    prand.tma(v);
                    for m in models.iter_mut() {
                        m.tma = v;
                    }
                }
                _ => {}
            }
            // observe
            let o1 = p1.obs();
            let o2 = pmax.obs();
            let o3 = prand.obs();
            if ctx.focus == "C13" {
                if o1 != o2 || o1 != o3 {
                    let which = (0..4).find(|&i| o1[i] != o2[i] || o1[i] != o3[i]).unwrap();
                    out.push(Violation::new(
                        "C13",
                        format!("C13/batching-dependent/{}/{}", ["DIV", "TIMA", "TMA", "TAC"][which], if bus { "bus" } else { "direct" }),
                        format!("op {} {:?}: [DIV,TIMA,TMA,TAC] P1={:02x?} Pmax={:02x?} Prand={:02x?}", opi, op, o1, o2, o3),
                    ));
                    break;
                }
                // prune the spec set by what the implementation shows
                let is_div = op.k == "div";
                let keep: Vec<RefTimer> = models
                    .iter()
                    .filter(|m| [m.div(), m.tima, m.tma, m.tac & 7] == o1)
                    .cloned()
                    .collect();
                if keep.is_empty() {
                    let m = &models[0];
                    let mo = [m.div(), m.tima, m.tma, m.tac & 7];
                    let which = (0..4).find(|&i| o1[i] != mo[i]).unwrap();
                    out.push(Violation::new(
                        "C13",
                        format!("C13/model-mismatch/{}/{}/{}", ["DIV", "TIMA", "TMA", "TAC"][which], op.k, if bus { "bus" } else { "direct" }),
                        format!("op {} {:?}: impl [DIV,TIMA,TMA,TAC]={:02x?} model={:02x?} (of {} admissible)", opi, op, o1, mo, models.len()),
                    ));
                    break;
                }
                models = keep;
                if models.len() > 1 {
                    // indistinguishable so far; keep both but bound the set
                    models.truncate(4);
                }
                // request accounting (not for the DIV-write fork, whose request timing is unspecified)
                if !is_div {
                    let expected = models[0].requests - model_req_before.get(0).copied().unwrap_or(models[0].requests).min(models[0].requests);
                    let agree_all = models.iter().zip(model_req_before.iter()).all(|(m, b)| m.requests - b.min(&m.requests) == expected);
                    if agree_all {
                        let bad = if op.k == "adv" {
                            req[0] != expected || (req[1] > 0) != (expected > 0) || (req[2] > 0) != (expected > 0) || req[2] > expected
                        } else {
                            req[0] != expected || req[1] != expected || req[2] != expected
                        };
                        if bad {
                            out.push(Violation::new(
                                "C13",
                                format!("C13/request-count/{}/{}", op.k, if bus { "bus" } else { "direct" }),
                                format!("op {} {:?}: expected {} timer request(s); P1 saw {}, Pmax flagged {}, Prand flagged {} batch(es)", opi, op, expected, req[0], req[1], req[2]),
                            ));
                            break;
                        }
                        if expected > 0 {
                            ctx.cov.add("probe.overflow_requests", expected);
                        }
                    }
                }
            }
        }
        ctx.cov.add("sim_clocks", sim_clocks * 3);
        if incs_seen {
            ctx.cov.mark("distinct", crate::prng::hash_u64s(&hkey));
        }
        ctx.cov.hit(if bus { "mode.bus" } else { "mode.direct" });
        out
    }
}
