//! C01 / C02 — one basic block in cartridge ROM, executed as translated code on
//! one replica and by the interpreter on an identical replica; state, status,
//! bus-write trace (C01) and machine cycles (C02) compared.

use super::{Ctx, Info, Scenario, Violation};
use crate::case::Case;
use crate::cart::{patch_key, rom_banks};
use crate::machine::{Machine, Regs};
use crate::prng::Rng;
use crate::setup::{replicas, rom_offset};
use crate::sm83;

pub struct BlockLockstep;

/// bank-0 area reserved for filler blocks (32 slots of 13 NOPs + JP)
pub const FILLER_BASE: usize = 0x0200;
pub const FILLER_LEN: usize = 0x200;
pub const FILLER_NOPS: usize = FILLER_LEN - 3;

pub fn filler_area() -> Vec<u8> {
    let mut v = vec![0u8; FILLER_NOPS];
    v.extend([0xc3, 0x00, 0x02]);
    v
}

fn status_class(s: u8) -> u8 {
    match s {
        1 => 1,
        2 => 2,
        3 => 3,
        4 | 5 => 4,
        _ => 0,
    }
}

fn region_of(p: u16) -> u64 {
    match p {
        0x0000..=0x1fff => 0,
        0x2000..=0x3fff => 1,
        0x4000..=0x5fff => 2,
        0x6000..=0x7fff => 3,
        0x8000..=0x9fff => 4,
        0xa000..=0xbfff => 5,
        0xc000..=0xcfff => 6,
        0xd000..=0xdfff => 7,
        0xe000..=0xfdff => 8,
        0xfe00..=0xfe9f => 9,
        0xfea0..=0xfeff => 10,
        0xff00..=0xff7f => 11,
        0xff80..=0xfffe => 12,
        0xffff => 13,
    }
}

const SKIP_CYCLES: [&str; 2] = ["cycles", "last_block_cycles"];
/// fields that depend on how much device time the tail delivered (C02's subject)
const TIME_FIELDS: [&str; 15] = [
    "cycles", "last_block_cycles", "io.DIV", "io.TIMA", "io.IF", "io.STAT", "io.LY", "hid.timer_phase", "hid.lcd_mode", "hid.lcd_dots", "hid.lcd_line", "hid.dma",
    "frame.visible", "frame.writing", "mem.oam",
];

enum Exec {
    Done(u8),
    Panicked(String),
}

thread_local! {
    /// callee-saved host registers that translated code returned changed (bitmask), for the last engine-level execution
    static CLOBBERED: std::cell::Cell<u64> = std::cell::Cell::new(0);
}

fn exec(m: &mut dyn Machine, mode: i64, jit: bool) -> Exec {
    let r = std::panic::catch_unwind(std::panic::AssertUnwindSafe(|| {
        if mode == 1 {
            m.run_code_block();
            0
        } else if jit {
            let (status, bad) = m.engine_jit_block_checked();
            CLOBBERED.with(|c| c.set(bad));
            status
        } else {
            m.engine_interp_block()
        }
    }));
    match r {
        Ok(s) => Exec::Done(s),
        Err(_) => Exec::Panicked(crate::driver::panic_class(&crate::driver::take_panic())),
    }
}


/// Exhaustive operand sweeps (an enumeration stratum next to the seeded search): every register-only 8-bit form is run over
/// its whole operand space in both engines. (cb, opcode, kind, operand): kind 0 = ALU A,x (A x operand x 4 flag patterns),
/// 1 = A-only (A x 16 flag states), 2 = INC/DEC rr (65536 values x 2), 3 = ADD HL,rr (65536 x 24 x 1), 4 = LD r,r' (256 x 2),
/// 5 = INC/DEC r and CB-prefixed (256 values x 16 flag states). operand: 0-5 = B C D E H L, 6 = (HL), 7 = A; rr: 0-3 = BC DE HL SP.
pub fn sweep_forms() -> Vec<(bool, u8, u8, u8)> {
    let mut v = Vec::new();
    for op in 0x80..=0xbfu8 {
        v.push((false, op, 0, op & 7));
    }
    for op in [0x07u8, 0x0f, 0x17, 0x1f, 0x27, 0x2f, 0x37, 0x3f] {
        v.push((false, op, 1, 7));
    }
    for r in 0..8u8 {
        v.push((false, 0x04 | r << 3, 5, r));
        v.push((false, 0x05 | r << 3, 5, r));
    }
    for rr in 0..4u8 {
        v.push((false, 0x03 | rr << 4, 2, rr));
        v.push((false, 0x0b | rr << 4, 2, rr));
        v.push((false, 0x09 | rr << 4, 3, rr));
    }
    for op in 0x40..=0x7fu8 {
        if op != 0x76 {
            v.push((false, op, 4, op & 7));
        }
    }
    for op in 0..=255u8 {
        v.push((true, op, 5, op & 7));
    }
    // immediate forms: one block per immediate value (256 blocks of the same form in one image)
    for op in [0xc6u8, 0xce, 0xd6, 0xde, 0xe6, 0xee, 0xf6, 0xfe] {
        v.push((false, op, 6, 0));
    }
    // LD A,(HL+) / LD A,(HL-): every value of HL
    v.push((false, 0x2a, 7, 0));
    v.push((false, 0x3a, 7, 0));
    // ADD SP,e8 (followed by LD HL,SP+0 in the same block, which shows what the first left in the host's SP register) and
    // LD HL,SP+e8: every e8 x 2048 values of SP (every low byte x 8 high bytes)
    v.push((false, 0xe8, 8, 0));
    v.push((false, 0xf8, 8, 0));
    v
}

/// bytes of the ROM image of a sweep case (placed at SWEEP_PC)
pub fn sweep_code(cb: bool, opc: u8, kind: u8) -> Vec<u8> {
    let jp = [0xc3, SWEEP_PC as u8, (SWEEP_PC >> 8) as u8];
    match kind {
        6 => (0..=255u8).flat_map(|imm| [opc, imm, jp[0], jp[1], jp[2], 0, 0, 0]).collect(),
        8 => (0..=255u8).flat_map(|imm| if opc == 0xe8 { [opc, imm, 0xf8, 0x00, jp[0], jp[1], jp[2], 0] } else { [opc, imm, jp[0], jp[1], jp[2], 0, 0, 0] }).collect(),
        _ => {
            let mut code: Vec<u8> = if cb { vec![0xcb, opc] } else { vec![opc] };
            code.extend(jp);
            code
        }
    }
}

const SWEEP_PC: u32 = 0x0200;
const SWEEP_STRIDE: u64 = 460;
const SWEEP_MEM: u16 = 0xc100;

fn put8(r: &mut Regs, idx: u8, v: u8) {
    let v = v as u32;
    match idx {
        0 => r.bc = (r.bc & 0x00ff) | v << 8,
        1 => r.bc = (r.bc & 0xff00) | v,
        2 => r.de = (r.de & 0x00ff) | v << 8,
        3 => r.de = (r.de & 0xff00) | v,
        4 => r.hl = (r.hl & 0x00ff) | v << 8,
        5 => r.hl = (r.hl & 0xff00) | v,
        7 => r.af = (r.af & 0x00ff) | v << 8,
        _ => {}
    }
}

fn put16(r: &mut Regs, idx: u8, v: u16) {
    match idx {
        0 => r.bc = v as u32,
        1 => r.de = v as u32,
        2 => r.hl = v as u32,
        _ => r.sp = v as u32,
    }
}

/// Runs one form over its operand space; returns the first disagreement.
fn sweep(j: &mut dyn Machine, i: &mut dyn Machine, cb: bool, opc: u8, kind: u8, operand: u8, focus_c02: bool, ctx: &mut Ctx, opi: usize) -> Option<Violation> {
    // the bus-trace hook (H1) keeps its buffer in a lazily initialised thread-local: touch it from Rust code first. Three of the
    // emitter's helper-call templates (emit_memory_read, emit_hl_indirect_read, emit_hl_indirect_partial_write) call the bus
    // helpers with rsp = 8 (mod 16); the production helpers do not care, but the thread-local's first-use initialisation
    // (movaps on the stack) does - that would be a crash caused by the hook, not by the code under test
    j.trace_start();
    let _ = j.trace_take();
    i.trace_start();
    let _ = i.trace_take();
    let base = Regs { af: 0x5a00, bc: 0x1234, de: 0x5678, hl: 0x9abc, sp: 0xdff0, ip: SWEEP_PC, cycles: 0 };
    let uses_mem = |idx: u8| idx == 6;
    // LD r,r' : destination may be (HL) as well
    let dst = if kind == 4 { (opc >> 3) & 7 } else { operand };
    let mem_form = kind != 2 && kind != 3 && kind != 1 && kind < 6 && (uses_mem(operand) || uses_mem(dst));
    let mut n: u64 = 0;
    let mut check = |r: Regs, memv: Option<u8>, what: &dyn Fn() -> String, j: &mut dyn Machine, i: &mut dyn Machine| -> Option<Violation> {
        j.set_regs(r);
        i.set_regs(r);
        if let Some(v) = memv {
            j.write(SWEEP_MEM, v);
            i.write(SWEEP_MEM, v);
        }
        let ej = exec(j, 0, true);
        let ei = exec(i, 0, false);
        let (sj, si) = match (&ej, &ei) {
            (Exec::Done(a), Exec::Done(b)) => (*a, *b),
            _ => return Some(Violation::new("C01", "C01/sweep/panicked".to_string(), format!("op {}: sweep {}: an engine panicked", opi, what()))),
        };
        let (rj, ri) = (j.regs(), i.regs());
        if focus_c02 {
            if rj.cycles != ri.cycles {
                return Some(Violation::new("C02", format!("C02/cycles-differ/sweep/jit{:+}", rj.cycles as i64 - ri.cycles as i64), format!("op {}: sweep {}: translated code reports {} machine cycles, interpreter {}", opi, what(), rj.cycles, ri.cycles)));
            }
            return None;
        }
        if status_class(sj) != status_class(si) {
            return Some(Violation::new("C01", "C01/sweep/status".to_string(), format!("op {}: sweep {}: status jit {} vs interpreter {}", opi, what(), sj, si)));
        }
        let (mut a, mut b) = (rj, ri);
        a.cycles = 0;
        b.cycles = 0;
        if a != b {
            let field = if a.af != b.af { "af" } else if a.bc != b.bc { "bc" } else if a.de != b.de { "de" } else if a.hl != b.hl { "hl" } else if a.sp != b.sp { "sp" } else { "pc" };
            return Some(Violation::new("C01", format!("C01/sweep/{}", field), format!("op {}: sweep {}: jit {:x?} vs interpreter {:x?}", opi, what(), rj, ri)));
        }
        if memv.is_some() {
            let (mj, mi) = (j.read(SWEEP_MEM), i.read(SWEEP_MEM));
            if mj != mi {
                return Some(Violation::new("C01", "C01/sweep/memory".to_string(), format!("op {}: sweep {}: (HL) afterwards jit {:#04x} vs interpreter {:#04x}", opi, what(), mj, mi)));
            }
        }
        None
    };
    let name = format!("{}{:02x}", if cb { "cb " } else { "" }, opc);
    match kind {
        0 => {
            for a in 0..=255u8 {
                for v in 0..=255u8 {
                    if operand == 7 && v != a {
                        continue;
                    }
                    for f in [0x00u32, 0x10, 0xe0, 0xf0] {
                        let mut r = base;
                        if mem_form {
                            r.hl = SWEEP_MEM as u32;
                        }
                        r.af = (a as u32) << 8 | f;
                        put8(&mut r, operand, v);
                        n += 1;
                        if let Some(x) = check(r, if mem_form { Some(v) } else { None }, &|| format!("{} A={:#04x} operand={:#04x} F={:#04x}", name, a, v, f), j, i) {
                            return Some(x);
                        }
                    }
                }
            }
        }
        1 | 5 => {
            for v in 0..=255u8 {
                for f in 0..16u32 {
                    let mut r = base;
                    if mem_form {
                        r.hl = SWEEP_MEM as u32;
                    }
                    r.af = (r.af & 0xff00) | f << 4;
                    put8(&mut r, if kind == 1 { 7 } else { operand }, v);
                    n += 1;
                    if let Some(x) = check(r, if mem_form { Some(v) } else { None }, &|| format!("{} value={:#04x} F={:#04x}", name, v, f << 4), j, i) {
                        return Some(x);
                    }
                }
            }
        }
        2 => {
            for v in 0..=0xffffu16 {
                for f in [0x00u32, 0xf0] {
                    let mut r = base;
                    r.af = (r.af & 0xff00) | f;
                    put16(&mut r, operand, v);
                    n += 1;
                    if let Some(x) = check(r, None, &|| format!("{} rr={:#06x} F={:#04x}", name, v, f), j, i) {
                        return Some(x);
                    }
                }
            }
        }
        3 => {
            const RR: [u16; 24] = [0x0000, 0x0001, 0x000f, 0x0010, 0x00ff, 0x0100, 0x07ff, 0x0800, 0x0fff, 0x1000, 0x1001, 0x7fff, 0x8000, 0x8001, 0xefff, 0xf000, 0xf001, 0xf7ff, 0xf800, 0xff00, 0xfff0, 0xfffe, 0xffff, 0x1234];
            for hl in 0..=0xffffu16 {
                for (k, rr) in RR.iter().enumerate() {
                    let mut r = base;
                    r.af = (r.af & 0xff00) | if k % 2 == 0 { 0x00 } else { 0xf0 };
                    r.hl = hl as u32;
                    if operand != 2 {
                        put16(&mut r, operand, *rr);
                    } else if k > 0 {
                        continue;
                    }
                    n += 1;
                    if let Some(x) = check(r, None, &|| format!("{} HL={:#06x} rr={:#06x}", name, hl, rr), j, i) {
                        return Some(x);
                    }
                }
            }
        }
        6 => {
            for imm in 0..=255u32 {
                for a in 0..=255u32 {
                    for f in [0x00u32, 0x10, 0xe0, 0xf0] {
                        let mut r = base;
                        r.ip = SWEEP_PC + 8 * imm;
                        r.af = a << 8 | f;
                        n += 1;
                        if let Some(x) = check(r, None, &|| format!("{} A={:#04x} d8={:#04x} F={:#04x}", name, a, imm, f), j, i) {
                            return Some(x);
                        }
                    }
                }
            }
        }
        7 => {
            for hl in 0..=0xffffu32 {
                let mut r = base;
                r.hl = hl;
                n += 1;
                if let Some(x) = check(r, None, &|| format!("{} HL={:#06x}", name, hl), j, i) {
                    return Some(x);
                }
            }
        }
        8 => {
            for imm in 0..=255u32 {
                for hi in [0x00u32, 0x0f, 0x10, 0x7f, 0x80, 0xc0, 0xfe, 0xff] {
                    for lo in 0..=255u32 {
                        let mut r = base;
                        r.ip = SWEEP_PC + 8 * imm;
                        r.sp = hi << 8 | lo;
                        r.af = (r.af & 0xff00) | if lo & 1 == 0 { 0x00 } else { 0xf0 };
                        n += 1;
                        if let Some(x) = check(r, None, &|| format!("{} SP={:#06x} e8={:#04x}", name, hi << 8 | lo, imm), j, i) {
                            return Some(x);
                        }
                    }
                }
            }
        }
        _ => {
            for v in 0..=255u8 {
                for f in [0x00u32, 0xf0] {
                    let mut r = base;
                    if mem_form {
                        r.hl = SWEEP_MEM as u32;
                    }
                    r.af = (r.af & 0xff00) | f;
                    // H / L as source while (HL) is the destination: the pointer itself is the value
                    if !(uses_mem(dst) && (operand == 4 || operand == 5)) {
                        put8(&mut r, operand, v);
                    }
                    n += 1;
                    if let Some(x) = check(r, if mem_form { Some(if uses_mem(operand) { v } else { !v }) } else { None }, &|| format!("{} value={:#04x} F={:#04x}", name, v, f), j, i) {
                        return Some(x);
                    }
                }
            }
        }
    }
    ctx.cov.add("sweep_executions", n);
    ctx.cov.mark("swept_forms", (cb as u64) << 8 | opc as u64);
    None
}

impl Scenario for BlockLockstep {
    fn name(&self) -> &'static str {
        "block_lockstep"
    }
    fn quick_runs(&self, _f: &str) -> u64 {
        200_000
    }
    fn chunk(&self) -> u64 {
        1000
    }
    fn death_property(&self, focus: &str) -> Option<&'static str> {
        if focus == "C01" {
            Some("C01")
        } else {
            None
        }
    }
    fn info(&self) -> Info {
        Info {
            rule: "one case = one generated cartridge + one basic block (0..N defined non-terminating instructions + one terminator; run index i forces encoding i mod 500 to be the last body instruction or the terminator) placed in ROM, a drawn CPU/RAM/device state, and a cache-age schedule (cold, warm re-execution from a second state, flush between executions, arena pre-filled to a drawn offset); executed by CodeCache translate+call on replica J and by interpreter::run_code_block on replica I (25%: Core::run_code_block of the jit crate vs the non-jit crate). 431 cases per batch are exhaustive operand sweeps instead (one register-only, immediate or pointer form each, over its whole operand and flag space in both engines; counter sweep_executions, reach set swept_forms). distinct_nontrivial = distinct (focus encoding, flags-in, HL region, SP region, cache age) cells in which the block executed to completion in both engines",
            components_real: &["emitter::x86_64 (all encode_* templates reached by the generated blocks)", "cache::CodeCache translate_code_block/call/get_address_for_ip", "interpreter::run_code_block", "decoder::decode", "mem bus helpers, IO, cart state", "Core::run_code_block tail (mode 1)"],
            components_stub: &["devices are real but only advanced during set-up (and in the mode-1 tail)", "host window / event loop absent"],
            assumptions: &["the 11 undefined opcodes are not generated", "blocks stay inside one ROM region (no instruction straddles 0x3FFF/0x4000 or runs past 0x7FFF)", "cartridges have 32 KiB cartridge RAM and bank selections are within the ROM, so no access is C11's subject", "captured stdout is not compared here (C18/C04)"],
            fault_kinds: &["flush (cache emptied between two executions)", "arena (placement offset / small arena via H2)", "bank (block placed in a drawn switchable bank)", "step (engine-level vs Core::run_code_block)"],
        }
    }

    fn generate(&self, rng: &mut Rng, index: u64, thorough: bool, case: &mut Case) {
        // giant-block stratum: a block that fills a whole 16 KiB region with the slowest one-byte instruction, so that the
        // block's cycle sum reaches the top of the 16-bit range the translated code keeps its counter in
        if index % 20000 == 19999 || (thorough && index % 997 == 0) {
            let op = rng.pick(&[0xc5u8, 0xd5, 0xe5, 0xf5, 0x34, 0x35, 0xc5, 0xf5]);
            let term = rng.pick(&[0xc9u8, 0xc7, 0xff, 0xe9, 0x76, 0xd9, 0xc0, 0xc8]);
            let n = match rng.below(3) {
                0 => 0x3fff,
                1 => 0x3fff - rng.below(4) as usize,
                _ => 0x3000 + rng.below(0xfff) as usize,
            };
            let mut code = vec![op; n];
            code.push(term);
            // in the second half of a ROM-only cartridge: clear of the header, and its bank registers do nothing
            let start = 0x8000 - code.len();
            case.set("focus", op as i64);
            case.set("cart_type", 0);
            case.set("rom_code", 0);
            case.set("ram_code", 3);
            case.set("rom_fill", 0);
            case.set("ramfill", 1 + rng.below(1 << 30) as i64);
            case.set("mode", rng.below(2) as i64);
            case.set("hostmm", 0);
            case.set("term", term as i64);
            case.set("age", 0);
            case.set("giant", 1);
            case.blobs.insert(patch_key(start), code);
            let f = (rng.below(16) << 4) as i64;
            case.push("regs", &[0x1200 | f, 0x8013, 0x80d8, 0xc100, 0xdff0, start as i64, 0]);
            case.push("exec", &[]);
            return;
        }
        // operand-sweep stratum: every SWEEP_STRIDE-th index up to 431 x SWEEP_STRIDE (inside the quick batch of 200000, spread
        // over the workers' chunks) is an exhaustive sweep of one form; independent of VERIF_SEED
        let forms = sweep_forms();
        if index % SWEEP_STRIDE == 0 && ((index / SWEEP_STRIDE) as usize) < forms.len() {
            let (cb, opc, kind, operand) = forms[(index / SWEEP_STRIDE) as usize];
            let code = sweep_code(cb, opc, kind);
            case.set("focus", if cb { 0x100 } else { 0 } | opc as i64);
            case.set("cart_type", 0);
            case.set("rom_code", 0);
            case.set("ram_code", 3);
            case.set("rom_fill", 0);
            case.set("ramfill", 0);
            case.set("mode", 0);
            case.set("hostmm", 0);
            case.set("term", 0xc3);
            case.set("age", 0);
            case.set("sweep", 1);
            case.blobs.insert(patch_key(SWEEP_PC as usize), code);
            case.push("sweep", &[cb as i64, opc as i64, kind as i64, operand as i64]);
            return;
        }
        let (cb, fop) = sm83::focus_encoding(index);
        case.set("focus", if cb { 0x100 } else { 0 } | fop as i64);
        // run-length stratum (every 53rd case): the block is a run of n copies of one one-byte instruction (NOP included), with n
        // around the byte and signed-byte limits, so that run-length or accumulated-displacement shortcuts in the translator show
        let run_len: Option<usize> = if index % 53 == 52 { Some(rng.pick(&[2usize, 3, 126, 127, 128, 129, 130, 254, 255, 256, 257, 300, 511, 512, 513, 1000])) } else { None };
        let cart_type = rng.pick(&[0x00u8, 0x01, 0x03, 0x11, 0x13, 0x01, 0x13]);
        // 1 in 12 banked cartridges is large (64 / 128 banks): on MBC1 the bank number then needs the upper-bits register too;
        // one in four of the others is a 32 KiB image behind a controller (two banks: every even value maps bank 0 into the window)
        let rom_code: u8 = if cart_type == 0 { 0 } else if rng.chance(1, 12) { rng.pick(&[5u8, 6]) } else { rng.pick(&[1u8, 2, 3, 0]) };
        case.set("cart_type", cart_type as i64);
        case.set("rom_code", rom_code as i64);
        case.set("ram_code", 3);
        case.set("rom_fill", if rng.chance(1, 2) { 0 } else { 2 + rng.below(1 << 30) as i64 });
        case.set("ramfill", 1 + rng.below(1 << 30) as i64);
        let mode = if rng.chance(1, 4) { 1 } else { 0 };
        case.set("mode", mode);
        // 1 in 64 runs uses the production mmap/mprotect/munmap path for arena and ROM
        case.set("hostmm", rng.chance(1, 64) as i64);
        let banks = rom_banks(rom_code);
        let high = rng.chance(1, 2);
        // 1 in 16 switchable-window blocks run with bank 0 mapped there: the register is written with the cartridge's bank
        // count, a non-zero value that wraps to bank 0 (the block's bytes then live in the first 16 KiB of the image)
        let wrap_to_zero = high && cart_type != 0 && rng.chance(1, 16) && banks <= 16;
        let mut bank = if cart_type == 0 { 1 } else if wrap_to_zero { 0 } else { 1 + rng.below(banks as u64 - 1) as usize };
        if cart_type <= 3 && bank & 0x1f == 0 && !wrap_to_zero {
            bank += 1; // MBC1 cannot select 0x20 / 0x40 / 0x60
        }
        // block body
        let avoid_rom_regs = high && !rng.chance(1, 5);
        let max_body = if thorough { rng.pick(&[0u64, 1, 3, 8, 24, 60, 200]) } else { rng.pick(&[0u64, 1, 2, 4, 8, 24]) };
        // operand grid: in 256 of every 400 passes over the encodings the focus instruction is reached with (A, operand)
        // taken systematically from a 16 x 16 grid of boundary values (all flag states are drawn), with nothing in front of it
        const GRID: [u8; 16] = [0x00, 0x01, 0x0f, 0x10, 0x7f, 0x80, 0xfe, 0xff, 0x09, 0x0a, 0x99, 0x9a, 0xa0, 0x66, 0x60, 0x06];
        let round = (index / 500) % 400;
        let writes_via_bc_de = !cb && matches!(fop, 0x02 | 0x12);
        let grid: Option<(u8, u8)> = if round < 256 && !writes_via_bc_de && run_len.is_none() { Some((GRID[(round % 16) as usize], GRID[(round / 16) as usize])) } else { None };
        let uses_hl_mem = if cb { fop & 7 == 6 } else { matches!(fop, 0x34 | 0x35 | 0x36 | 0x22 | 0x2a | 0x32 | 0x3a) || ((0x40..=0x7f).contains(&fop) && (fop & 7 == 6 || (fop >> 3) & 7 == 6)) || ((0x80..=0xbf).contains(&fop) && fop & 7 == 6) };
        case.set("grid", grid.is_some() as i64);
        let nbody = if grid.is_some() { 0 } else { rng.below(max_body + 1) as usize };
        let mut code: Vec<u8> = Vec::new();
        let focus_is_term = !cb && sm83::is_terminator(fop);
        for _ in 0..nbody {
            code.extend(sm83::body_instruction(rng, avoid_rom_regs));
        }
        if let Some(n) = run_len {
            // a one-byte instruction that neither ends the block nor moves the pointers it uses out of RAM too quickly
            let op = if rng.chance(1, 2) { 0x00 } else { rng.pick(&[0x04u8, 0x0c, 0x3c, 0x3d, 0x07, 0x17, 0x27, 0x2f, 0x37, 0x3f, 0x80, 0x90, 0xa8, 0xb8, 0x40, 0x7f, 0x03, 0x13, 0x1b, 0x34, 0x35, 0x7e]) };
            code = vec![op; n];
            case.set("run_op", op as i64);
        }
        if !focus_is_term {
            if cb {
                code.extend([0xcb, fop]);
            } else {
                let mut enc = sm83::encode(fop, rng, avoid_rom_regs);
                if let Some((_, o)) = grid {
                    // immediate operand of two-byte data instructions comes from the grid as well
                    if enc.len() == 2 && !matches!(fop, 0x10 | 0x18 | 0x20 | 0x28 | 0x30 | 0x38 | 0xe0 | 0xf0) {
                        enc[1] = o;
                    }
                }
                code.extend(enc);
            }
        }
        let term = if focus_is_term { fop } else { rng.pick(&sm83::TERMINATORS) };
        // boundary stratum: a fixed-bank block with no terminator whose last instruction ends at 0x3fff, so that execution
        // would run on into whatever bank is mapped at 0x4000 (both engines must stop at the boundary)
        let falls_through = !high && !focus_is_term && rng.chance(1, 12);
        if !falls_through {
            code.extend(sm83::encode(term, rng, false));
        }
        case.set("term", if falls_through { 0 } else { term as i64 });
        case.set("falls_through", falls_through as i64);
        // placement
        let len = code.len();
        let (lo, hi) = if high { (0x4000usize, 0x8000usize) } else { (0x0000usize, 0x4000usize) };
        let addr = loop {
            if falls_through {
                break hi - len;
            }
            let a = match rng.below(6) {
                0 => hi - len,
                1 => lo,
                2 => lo + rng.below(0x200) as usize,
                _ => lo + rng.below((hi - lo - len) as u64 + 1) as usize,
            };
            // keep clear of the cartridge header (also when the block's bytes live in bank 0 although it runs at 0x4000+)
            let off = if wrap_to_zero { a & 0x3fff } else { a };
            if off + len <= 0x100 || off >= FILLER_BASE + FILLER_LEN {
                break a;
            }
        };
        case.blobs.insert(patch_key(rom_offset(addr, bank)), code);
        // set-up: select the bank the block lives in (or a drawn one for bank-0 blocks)
        if cart_type != 0 {
            let b = if wrap_to_zero { banks } else if high { bank } else { rng.below(banks as u64) as usize };
            case.push("w", &[0x2000 + rng.below(0x2000) as i64, b as i64]);
            if cart_type <= 3 && banks > 32 {
                case.push("w", &[0x4000 + rng.below(0x2000) as i64, (b >> 5) as i64]);
            } else if cart_type <= 3 && rng.chance(1, 4) {
                case.push("w", &[0x6000, 1]);
                case.push("w", &[0x4000, rng.below(4) as i64]);
            }
            if cart_type >= 0x11 && rng.chance(1, 3) {
                case.push("w", &[0x4000, rng.below(4) as i64]);
            }
        }
        // device phase
        if rng.chance(2, 3) {
            case.push("w", &[0xff07, rng.below(8) as i64]);
            case.push("w", &[0xff06, rng.byte() as i64]);
            case.push("w", &[0xff05, rng.byte_b() as i64]);
            case.push("w", &[0xff40, (0x80 | rng.byte()) as i64]);
            case.push("w", &[0xff41, (rng.byte() & 0x78) as i64]);
            case.push("w", &[0xff45, rng.pick(&[0u8, 1, 143, 144, 153, 77]) as i64]);
            case.push("w", &[0xffff, rng.below(32) as i64]);
            case.push("w", &[0xff0f, rng.below(32) as i64]);
            let span = if rng.chance(1, 4) { 40000 } else { 600 };
            case.push("clk", &[4 * rng.below(span) as i64]);
        }
        let draw_regs = |rng: &mut Rng| -> Vec<i64> {
            let f = (rng.below(16) << 4) as i64;
            let af = ((rng.byte_b() as i64) << 8) | f;
            let r16 = |rng: &mut Rng| -> i64 {
                if rng.chance(1, 2) {
                    sm83::pointer(rng, avoid_rom_regs) as i64
                } else {
                    ((rng.byte_b() as i64) << 8) | rng.byte_b() as i64
                }
            };
            let mut hl = r16(rng);
            if avoid_rom_regs && hl < 0x8000 {
                hl |= 0x8000;
            }
            let mut bc = r16(rng);
            let mut de = r16(rng);
            if avoid_rom_regs {
                if bc < 0x8000 {
                    bc |= 0x8000;
                }
                if de < 0x8000 {
                    de |= 0x8000;
                }
            }
            // SP: pushes go to sp-1, sp-2; keep them off the bank registers for high blocks
            let mut sp = sm83::pointer(rng, false) as i64;
            if avoid_rom_regs && (sp <= 0x8001) {
                sp = 0xc000 + (sp & 0xfff);
            }
            let cycles = if rng.chance(1, 4) { 5 } else { 0 };
            vec![af, bc, de, hl, sp, addr as i64, cycles]
        };
        // grid passes: the first execution starts from the grid state
        let mut grid_regs: Option<Vec<i64>> = None;
        if let Some((a, o)) = grid {
            let mut r = draw_regs(rng);
            r[0] = ((a as i64) << 8) | (r[0] & 0xf0);
            let oo = ((o as i64) << 8) | o as i64;
            r[1] = oo;
            r[2] = oo;
            if uses_hl_mem {
                let hl = 0xc000 + rng.below(0x1f00) as i64;
                r[3] = hl;
                case.push("w", &[hl, o as i64]);
            } else {
                r[3] = oo;
            }
            grid_regs = Some(r);
        }
        let mut draw_regs = |rng: &mut Rng| -> Vec<i64> {
            match grid_regs.take() {
                Some(r) => r,
                None => draw_regs(rng),
            }
        };
        let age = if grid.is_some() { 0 } else { rng.below(8) };
        case.set("age", age as i64);
        if grid.is_some() {
            // the grid state first (full comparison), then 15 follow-up executions of the same (now cached) block from uniformly
            // drawn A / operand / flags, the last one compared in full again
            let r = draw_regs(rng);
            case.push("regs", &r);
            case.push("exec", &[]);
            for k in 0..15 {
                let mut r = draw_regs(rng);
                let a = rng.byte() as i64;
                let o = rng.byte() as i64;
                r[0] = (a << 8) | ((rng.below(16) as i64) << 4);
                let oo = (o << 8) | o;
                r[1] = oo;
                r[2] = oo;
                if uses_hl_mem {
                    let hl = 0xc000 + rng.below(0x1f00) as i64;
                    r[3] = hl;
                    case.push("w", &[hl, o]);
                } else {
                    r[3] = oo;
                }
                case.push("regs", &r);
                case.push("exec", &[if k == 14 { 0 } else { 1 }]);
            }
            return;
        }
        match age {
            0..=2 => {
                let r = draw_regs(rng);
                case.push("regs", &r);
                case.push("exec", &[]);
            }
            3 | 4 => {
                // warm: second execution from another state hits the cache
                let r = draw_regs(rng);
                case.push("regs", &r);
                case.push("exec", &[]);
                let r = draw_regs(rng);
                case.push("regs", &r);
                case.push("exec", &[]);
            }
            5 => {
                let r = draw_regs(rng);
                case.push("regs", &r);
                case.push("exec", &[]);
                case.push("flush", &[]);
                let r = draw_regs(rng);
                case.push("regs", &r);
                case.push("exec", &[]);
            }
            _ => {
                // arena placement: small arena (H2) and/or filler translations first
                let arena = rng.pick(&[0x10000i64, 0x20000, 0x8000, 0x4000]);
                case.set("arena", arena);
                case.blobs.insert(patch_key(FILLER_BASE), filler_area());
                let target = match rng.below(4) {
                    0 => 0x1000 + rng.below(0x1000) as i64,
                    1 => 0x2000 + rng.below(0x800) as i64,
                    _ => 0x1800 + rng.below(arena as u64 - 0x1800) as i64,
                };
                case.push("fillto", &[target]);
                let r = draw_regs(rng);
                case.push("regs", &r);
                case.push("exec", &[]);
            }
        }
    }

    fn run(&self, case: &Case, ctx: &mut Ctx) -> Vec<Violation> {
        let focus_c02 = ctx.focus == "C02";
        let mode = case.get("mode");
        let arena = case.get("arena");
        if arena > 0 {
            crate::machine::set_arena_size((arena as usize).max(0x2000));
        } else {
            crate::machine::set_arena_size(0);
        }
        let kinds = if mode == 1 { [true, false] } else { [true, true] };
        let (_img, mut reps) = match replicas(case, &kinds) {
            Ok(x) => x,
            Err(e) => {
                ctx.cov.hit("setup_failed");
                let _ = e;
                return vec![];
            }
        };
        crate::machine::set_arena_size(0);
        let (a, b) = reps.split_at_mut(1);
        let j = a[0].as_mut();
        let i = b[0].as_mut();
        let fenc = case.get("focus");
        let mut out = Vec::new();
        let mut execs = 0;
        let mut time_diverged = false; // mode 1: a cycle difference (C02's subject) has already desynchronised device time
        for (opi, op) in case.ops.iter().enumerate() {
            match op.k {
                "w" => {
                    let (a, v) = (op.arg(0) as u16, op.arg(1) as u8);
                    // bank selections stay inside the ROM (C11/C12 own the rest)
                    j.write(a, v);
                    i.write(a, v);
                }
                "clk" => {
                    let n = (op.arg(0).clamp(0, 1 << 20) as usize) & !3;
                    j.clock(n);
                    i.clock(n);
                }
                "regs" => {
                    let r = Regs {
                        af: (op.arg(0) & 0xfff0) as u32,
                        bc: (op.arg(1) & 0xffff) as u32,
                        de: (op.arg(2) & 0xffff) as u32,
                        hl: (op.arg(3) & 0xffff) as u32,
                        sp: (op.arg(4) & 0xffff) as u32,
                        ip: (op.arg(5) & 0x7fff) as u32,
                        cycles: (op.arg(6) & 0xff) as u32,
                    };
                    j.set_regs(r);
                    i.set_regs(r);
                }
                "sweep" => {
                    if let Some(v) = sweep(j, i, op.arg(0) != 0, op.arg(1) as u8, op.arg(2) as u8, op.arg(3) as u8, focus_c02, ctx, opi) {
                        out.push(v);
                        return out;
                    }
                }
                "flush" => {
                    if !j.cache_entries().is_empty() {
                        ctx.cov.hit("fault.flush_discarded_entries");
                    }
                    j.flush_cache();
                }
                "fillto" => {
                    // translate filler blocks (bank-0 filler area: NOP run + JP) until the arena has about arg0 bytes left
                    let target = op.arg(0).clamp(0x600, 0x800000) as usize;
                    let mut n = 0u64;
                    let mut per_nop = 16usize; // calibrated from the first translation
                    while j.cache_space() > target + 0x100 && n < 64 {
                        let left = j.cache_space() - target;
                        let want_nops = (left / per_nop).clamp(1, FILLER_NOPS);
                        let ip = FILLER_BASE + (FILLER_NOPS - want_nops);
                        let before = j.cache_space();
                        let r = std::panic::catch_unwind(std::panic::AssertUnwindSafe(|| j.jit_translate(ip)));
                        if r.is_err() {
                            let _ = crate::driver::take_panic();
                            ctx.cov.hit("probe.arena_exhausted_by_fillers");
                            break;
                        }
                        let used = before - j.cache_space();
                        if n == 0 && want_nops > 8 {
                            per_nop = (used / want_nops).max(4) + 1;
                        }
                        n += 1;
                    }
                    let _ = crate::capture::take();
                    if j.cache_space() < 0x1000 {
                        ctx.cov.hit("probe.arena_below_low_space_threshold_before_exec");
                    }
                    ctx.cov.add("fault.arena_filler_translations", n);
                }
                "exec" => {
                    execs += 1;
                    let before = j.regs();
                    let bank_before = i.rom_bank();
                    let hit = j.jit_lookup(before.ip as usize);
                    j.trace_start();
                    CLOBBERED.with(|c| c.set(0));
                    let ej = exec(j, mode, true);
                    let tj = j.trace_take();
                    let clobbered = CLOBBERED.with(|c| c.get());
                    if clobbered != 0 && !focus_c02 {
                        let names: Vec<&str> = ["rbx", "rbp", "r12", "r13", "r14", "r15"].iter().enumerate().filter(|(k, _)| clobbered & (1 << k) != 0).map(|(_, n)| *n).collect();
                        out.push(Violation::new("C01", format!("C01/host-registers-clobbered/{}", names.join("+")), format!("op {}: translated code returned with callee-saved host register(s) {} changed (the host process is not intact)", opi, names.join(", "))));
                        return out;
                    }
                    if mode == 0 {
                        ctx.cov.hit("probe.calls_with_canaries_in_callee_saved_registers");
                    }
                    if case.get("rom_code") >= 5 {
                        ctx.cov.hit("probe.executions_on_64_or_128_bank_cartridges");
                    }
                    i.trace_start();
                    let ei = exec(i, mode, false);
                    let ti = i.trace_take();
                    let _ = crate::capture::take();
                    // a block that reaches into the switchable bank and writes a bank register while it runs
                    let blk_len = j.cache_entries().iter().find(|e| e.2 as u32 == before.ip).map(|e| e.3).unwrap_or(0);
                    let reaches_high = before.ip as usize >= 0x4000 || before.ip as usize + blk_len > 0x4000;
                    // ... and thereby remaps the bank it is running from (probe only: since the repair both engines fetch the next
                    // instruction from the new bank)
                    let bank_writes = ti.iter().filter(|e| e.0 == 1 && e.1 >= 0x2000 && e.1 < 0x8000).count();
                    let self_switch = case.get("cart_type") != 0 && reaches_high && bank_writes > 0 && (i.rom_bank() != bank_before || bank_writes > 1);
                    let cell = (fenc as u64) << 24 | ((before.af as u64 >> 4) & 0xf) << 20 | region_of(before.hl as u16) << 16 | region_of(before.sp as u16) << 12 | (case.get("age") as u64) << 4 | hit as u64;
                    match (&ej, &ei) {
                        (Exec::Panicked(pj), Exec::Panicked(pi)) => {
                            ctx.cov.hit("both_panicked");
                            // out of generator scope (e.g. running past the end of ROM, an undefined opcode as the first instruction):
                            // both must fail, and with the same message (location stripped) - since both engines end a block in front
                            // of an undefined opcode they meet the same one
                            let msg = |s: &str| s.split(" @ ").next().unwrap_or("").trim().to_string();
                            if msg(pj) != msg(pi) && !focus_c02 {
                                out.push(Violation::new("C01", format!("C01/panic-class-differs"), format!("op {}: jit panicked '{}', interpreter '{}'", opi, pj, pi)));
                            }
                            return out;
                        }
                        (Exec::Panicked(p), Exec::Done(_)) | (Exec::Done(_), Exec::Panicked(p)) => {
                            if arena > 0 && matches!(ej, Exec::Panicked(_)) && p.contains("does not fit") {
                                // artefact of the reduced arena (H2): one block larger than the whole arena
                                ctx.cov.hit("probe.block_larger_than_reduced_arena");
                                return out;
                            }
                            if arena > 0 && matches!(ej, Exec::Panicked(_)) && j.cache_space() < 0x3000 {
                                // translation ran out of the (deliberately small) arena: C03/C04's subject, not a block-semantics question
                                ctx.cov.hit("probe.arena_exhausted_at_exec");
                                return out;
                            }
                            if !focus_c02 {
                                let who = if matches!(ej, Exec::Panicked(_)) { "jit" } else { "interpreter" };
                                let sig = format!("C01/one-engine-panicked/{}/{}", who, p);
                                out.push(Violation::new("C01", sig, format!("op {}: only the {} engine panicked: {}", opi, who, p)));
                            }
                            return out;
                        }
                        (Exec::Done(sj), Exec::Done(si)) => {
                            // follow-up executions of an already compared block: registers, I/O registers, hidden device state and the
                            // bus-write trace (memory is only reachable through those writes); the last execution of a case is full again
                            let lite = op.arg(0) != 0;
                            let snj = j.snap(!lite);
                            let sni = i.snap(!lite);
                            if lite {
                                ctx.cov.hit("probe.follow_up_executions_of_cached_block");
                            }
                            if hit {
                                ctx.cov.hit("probe.cache_hit_executions");
                            }
                            if case.get("giant") != 0 {
                                ctx.cov.hit("probe.giant_blocks_executed");
                                ctx.cov.mark("giant_block_cycle_sums", sni.get(if mode == 1 { "last_block_cycles" } else { "cycles" }));
                            }
                            ctx.cov.mark("distinct", cell);
                            if case.get("run_op") != 0 || (case.get("falls_through") == 0 && case.get("grid") == 0 && case.blobs.values().any(|b| b.len() > 120 && b.iter().take(120).all(|x| *x == 0))) {
                                ctx.cov.hit("probe.run_length_blocks_executed");
                            }
                            if case.get("grid") != 0 && execs == 1 {
                                ctx.cov.mark("operand_grid_cells", (fenc as u64) << 16 | ((before.af as u64 >> 8) & 0xff) << 8 | (before.bc as u64 & 0xff));
                            }
                            if before.ip < 0x4000 && i.regs().ip == 0x4000 && case.get("falls_through") != 0 {
                                ctx.cov.hit("probe.fixed_bank_block_ended_at_the_bank_boundary");
                            }
                            ctx.cov.mark("encodings", fenc as u64);
                            ctx.cov.mark("terminator_kinds", sm83::terminator_kind(case.get("term") as u8) as u64);
                            // conditional outcome probe: taken iff pc != fallthrough
                            let term = case.get("term") as u8;
                            if matches!(sm83::terminator_kind(term), 1 | 4 | 6 | 9) {
                                ctx.cov.mark("cond_outcomes", (term as u64) << 4 | ((before.af as u64 >> 4) & 0xf));
                            }
                            if self_switch {
                                // both engines end the block right after the remapping instruction (repaired defect, A.3 no. 28)
                                ctx.cov.hit("probe.block_remapped_its_own_bank");
                            }
                            if focus_c02 {
                                let (cj, ci) = if mode == 1 { (snj.get("last_block_cycles"), sni.get("last_block_cycles")) } else { (snj.get("cycles"), sni.get("cycles")) };
                                if cj != ci {
                                    out.push(Violation::new(
                                        "C02",
                                        format!("C02/cycles-differ/jit{:+}", cj as i64 - ci as i64),
                                        format!("op {} (exec #{}): translated code reports {} machine cycles, interpreter {} (mode {}, flags-in {:#04x})", opi, execs, cj, ci, mode, before.af & 0xf0),
                                    ));
                                    return out;
                                }
                                if mode == 1 {
                                    // devices saw the same elapsed time
                                    for f in ["io.DIV", "io.TIMA", "io.LY", "io.STAT", "hid.timer_phase", "hid.lcd_dots", "hid.dma"] {
                                        if snj.get(f) != sni.get(f) && snj.diff(&sni, &TIME_FIELDS).is_none() {
                                            out.push(Violation::new("C02", format!("C02/device-time-differs/{}", f), format!("op {}: {} jit {:#x} vs interpreter {:#x} although cycles agree", opi, f, snj.get(f), sni.get(f))));
                                            return out;
                                        }
                                    }
                                }
                                ctx.cov.add("sim_clocks", 4 * ci);
                            } else {
                                if mode == 0 && status_class(*sj) != status_class(*si) {
                                    let sig = format!("C01/status");
                                    out.push(Violation::new("C01", sig, format!("op {}: status jit {} vs interpreter {}", opi, sj, si)));
                                    return out;
                                }
                                let cycles_differ = snj.get("cycles") != sni.get("cycles") || snj.get("last_block_cycles") != sni.get("last_block_cycles");
                                if mode == 1 && cycles_differ {
                                    // C02's subject; device time (and with it interrupt arrival) is no longer comparable in this case
                                    ctx.cov.hit("c01_case_cut_short_by_cycle_difference");
                                    return out;
                                }
                                let skip: &[&str] = if time_diverged { &TIME_FIELDS } else { &SKIP_CYCLES };
                                if let Some(field) = snj.diff_field(&sni, skip) {
                                    let sig = format!("C01/state/{}", field);
                                    out.push(Violation::new("C01", sig, format!("op {} (exec #{}, cache {}): {} (jit vs interpreter); pc-in {:#06x}", opi, execs, if hit { "hit" } else { "miss" }, snj.diff(&sni, skip).unwrap(), before.ip)));
                                    return out;
                                }
                                let wj: Vec<(u16, u8)> = tj.iter().filter(|e| e.0 == 1).map(|e| (e.1, e.2)).collect();
                                let wi: Vec<(u16, u8)> = ti.iter().filter(|e| e.0 == 1).map(|e| (e.1, e.2)).collect();
                                if wj != wi && !time_diverged {
                                    let mut sj2 = wj.clone();
                                    let mut si2 = wi.clone();
                                    sj2.sort();
                                    si2.sort();
                                    let kind = if sj2 == si2 {
                                        "order"
                                    } else if wj.len() > wi.len() {
                                        "extra-write-by-jit"
                                    } else if wj.len() < wi.len() {
                                        "missing-write-by-jit"
                                    } else {
                                        "content"
                                    };
                                    out.push(Violation::new("C01", format!("C01/bus-writes/{}", kind), format!("op {}: bus writes jit {:x?} vs interpreter {:x?}", opi, wj, wi)));
                                    return out;
                                }
                                ctx.cov.add("bus_writes_compared", wi.len() as u64);
                            }
                        }
                    }
                }
                _ => {}
            }
        }
        out
    }
}
