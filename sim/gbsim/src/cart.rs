//! Cartridge images written by the simulator ("disk" of the simulation).
//! A case describes its cartridge by parameters + patches; the image is
//! materialised into a memfd (in-process scenarios) or a regular file under
//! /verif/work (real-binary scenarios) and loaded by the repository's own
//! read_header / from_rom_file path.

use crate::case::Case;

pub struct MemFile {
    pub fd: i32,
}

impl MemFile {
    pub fn new(name: &str) -> MemFile {
        let cname = std::ffi::CString::new(name).unwrap();
        let fd = unsafe { libc::memfd_create(cname.as_ptr(), 0) };
        assert!(fd >= 0, "memfd_create failed");
        MemFile { fd }
    }
    pub fn set_len(&self, len: usize) {
        let r = unsafe { libc::ftruncate(self.fd, len as libc::off_t) };
        assert!(r == 0, "ftruncate failed");
    }
    pub fn pwrite(&self, off: usize, data: &[u8]) {
        let mut done = 0;
        while done < data.len() {
            let r = unsafe { libc::pwrite(self.fd, data[done..].as_ptr() as *const _, data.len() - done, (off + done) as libc::off_t) };
            assert!(r > 0, "pwrite failed");
            done += r as usize;
        }
    }
    pub fn len(&self) -> usize {
        let mut st: libc::stat = unsafe { std::mem::zeroed() };
        unsafe { libc::fstat(self.fd, &mut st) };
        st.st_size as usize
    }
    pub fn read_from(&self, off: usize) -> Vec<u8> {
        let len = self.len();
        if off >= len {
            return Vec::new();
        }
        let mut buf = vec![0u8; len - off];
        let mut done = 0;
        while done < buf.len() {
            let r = unsafe { libc::pread(self.fd, buf[done..].as_mut_ptr() as *mut _, buf.len() - done, (off + done) as libc::off_t) };
            if r <= 0 {
                break;
            }
            done += r as usize;
        }
        buf.truncate(done);
        buf
    }
}

impl Drop for MemFile {
    fn drop(&mut self) {
        unsafe { libc::close(self.fd) };
    }
}

pub fn rom_banks(code: u8) -> usize {
    match code {
        0..=8 => 2usize << code,
        0x52 => 72,
        0x53 => 80,
        0x54 => 96,
        _ => 2,
    }
}

pub fn ram_bytes(code: u8) -> usize {
    match code {
        1 => 2 * 1024,
        2 => 8 * 1024,
        3 => 32 * 1024,
        4 => 128 * 1024,
        5 => 64 * 1024,
        _ => 0,
    }
}

pub const ROM_CODES: [u8; 12] = [0, 1, 2, 3, 4, 5, 6, 7, 8, 0x52, 0x53, 0x54];
pub const RAM_CODES: [u8; 6] = [0, 1, 2, 3, 4, 5];
pub const CART_TYPES: [u8; 7] = [0x00, 0x01, 0x02, 0x03, 0x11, 0x12, 0x13];

pub fn header_checksum(header_0x134_to_0x14c: &[u8]) -> u8 {
    let mut x: u8 = 0;
    for b in header_0x134_to_0x14c {
        x = x.wrapping_sub(*b).wrapping_sub(1);
    }
    x
}

/// deterministic filler byte stream
pub fn fill_pattern(seed: u64, len: usize) -> Vec<u8> {
    let mut out = Vec::with_capacity(len + 8);
    let mut x = seed | 1;
    while out.len() < len {
        x ^= x << 13;
        x ^= x >> 7;
        x ^= x << 17;
        out.extend_from_slice(&x.to_le_bytes());
    }
    out.truncate(len);
    out
}

pub fn parse_patch_key(key: &str) -> Option<usize> {
    let rest = key.strip_prefix("rom:")?;
    usize::from_str_radix(rest, 16).ok()
}

pub fn patch_key(off: usize) -> String {
    format!("rom:{:06x}", off)
}

/// Build the default 0x50-byte header for a case (entry = NOP; JP 0x0150)
pub fn default_header(cart_type: u8, rom_code: u8, ram_code: u8) -> Vec<u8> {
    let mut h = vec![0u8; 0x50];
    h[0] = 0x00;
    h[1] = 0xc3;
    h[2] = 0x50;
    h[3] = 0x01;
    let title = b"VERIFSIM";
    h[0x34..0x34 + title.len()].copy_from_slice(title);
    h[0x47] = cart_type;
    h[0x48] = rom_code;
    h[0x49] = ram_code;
    h[0x4d] = header_checksum(&h[0x34..0x4d]);
    h
}

/// Write the case's cartridge image into `file`. Parameters:
/// cart_type, rom_code, ram_code, rom_fill (0 zeros, 1 bank ids, >=2 pattern seed).
/// Blobs "rom:<hexoff>" are patched last; if a patch touches the header the
/// checksum is NOT recomputed when param raw_header != 0.
/// Returns the byte ranges written (so a pooled file can be wiped before reuse).
pub fn write_image(case: &Case, file: &MemFile) -> Vec<(usize, usize)> {
    let mut dirty: Vec<(usize, usize)> = Vec::new();
    let cart_type = case.get("cart_type") as u8;
    let rom_code = case.get("rom_code") as u8;
    let ram_code = case.get("ram_code") as u8;
    let size = rom_banks(rom_code) * 0x4000;
    let size = if case.get("file_len") > 0 { case.get("file_len") as usize } else { size };
    if file.len() != size {
        file.set_len(size);
    }
    let fill = case.get("rom_fill") as u64;
    let fill_byte = case.get("fill_byte");
    if fill_byte > 0 {
        // whole image = one byte value (e.g. RST 00, so that stray execution stays in tiny blocks)
        let chunk = vec![fill_byte as u8; 0x4000];
        let mut off = 0;
        while off < size {
            let n = chunk.len().min(size - off);
            file.pwrite(off, &chunk[..n]);
            off += n;
        }
        dirty.push((0, size));
    }
    if fill == 1 {
        for b in 0..(size / 0x4000) {
            let id = [(b & 0xff) as u8, (b >> 8) as u8];
            // every bank starts with: NOP; LD BC,<bank id>; RET  (so executing at 0x4000 reports the visible bank)
            file.pwrite(b * 0x4000, &[0x00, 0x01, id[0], id[1], 0xc9]);
            dirty.push((b * 0x4000, 5));
            for off in [0x1ffe, 0x3ffe] {
                file.pwrite(b * 0x4000 + off, &id);
                dirty.push((b * 0x4000 + off, 2));
            }
        }
    } else if fill >= 2 && size <= 0x40000 {
        let data = fill_pattern(fill, size);
        file.pwrite(0, &data);
        dirty.push((0, size));
    }
    if size >= 0x150 {
        file.pwrite(0x100, &default_header(cart_type, rom_code, ram_code));
        dirty.push((0x100, 0x50));
    }
    let mut touched_header = false;
    for (k, v) in &case.blobs {
        if let Some(off) = parse_patch_key(k) {
            if off + v.len() <= size {
                file.pwrite(off, v);
                dirty.push((off, v.len()));
                if off < 0x150 && off + v.len() > 0x134 {
                    touched_header = true;
                }
            }
        }
    }
    if touched_header && case.get("raw_header") == 0 && size >= 0x150 {
        let mut h = vec![0u8; 0x19];
        unsafe { libc::pread(file.fd, h.as_mut_ptr() as *mut _, 0x19, 0x134) };
        file.pwrite(0x14d, &[header_checksum(&h)]);
    }
    dirty
}

/// Handle to the image of the current case. The file is pooled per thread and
/// per size: it is wiped and rewritten by the next `image_for` call, so only
/// one case's image is alive at a time (which is how scenarios use it).
pub struct Image {
    pub fd: i32,
}

thread_local! {
    static POOL: std::cell::RefCell<Vec<(usize, MemFile, Vec<(usize, usize)>)>> = std::cell::RefCell::new(Vec::new());
}

pub fn image_for(case: &Case) -> Image {
    let rom_code = case.get("rom_code") as u8;
    let size = rom_banks(rom_code) * 0x4000;
    let size = if case.get("file_len") > 0 { case.get("file_len") as usize } else { size };
    POOL.with(|pool| {
        let mut pool = pool.borrow_mut();
        let idx = match pool.iter().position(|e| e.0 == size) {
            Some(i) => i,
            None => {
                let f = MemFile::new("gbsim-rom");
                f.set_len(size);
                pool.push((size, f, Vec::new()));
                pool.len() - 1
            }
        };
        let entry = &mut pool[idx];
        // wipe what the previous case wrote
        let zeros = vec![0u8; 0x10000];
        for &(off, len) in entry.2.iter() {
            let mut done = 0;
            while done < len {
                let n = (len - done).min(zeros.len());
                entry.1.pwrite(off + done, &zeros[..n]);
                done += n;
            }
        }
        entry.2 = write_image(case, &entry.1);
        Image { fd: entry.1.fd }
    })
}
