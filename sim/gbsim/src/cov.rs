//! Coverage / reach accounting. Counters are sums, sets are unions of 64-bit
//! keys; both merge associatively, so results do not depend on worker count.

use serde_json::{json, Map, Value};
use std::collections::{BTreeMap, BTreeSet};

#[derive(Default, Clone)]
pub struct Cov {
    pub counters: BTreeMap<String, u64>,
    pub sets: BTreeMap<String, BTreeSet<u64>>,
}

impl Cov {
    pub fn new() -> Cov {
        Cov::default()
    }
    pub fn add(&mut self, key: &str, n: u64) {
        if let Some(c) = self.counters.get_mut(key) {
            *c += n;
        } else {
            self.counters.insert(key.to_string(), n);
        }
    }
    pub fn hit(&mut self, key: &str) {
        self.add(key, 1);
    }
    pub fn mark(&mut self, set: &str, key: u64) {
        if let Some(s) = self.sets.get_mut(set) {
            s.insert(key);
        } else {
            let mut s = BTreeSet::new();
            s.insert(key);
            self.sets.insert(set.to_string(), s);
        }
    }
    pub fn count(&self, key: &str) -> u64 {
        self.counters.get(key).copied().unwrap_or(0)
    }
    pub fn set_len(&self, set: &str) -> u64 {
        self.sets.get(set).map(|s| s.len() as u64).unwrap_or(0)
    }
    pub fn merge(&mut self, other: &Cov) {
        for (k, v) in &other.counters {
            self.add(k, *v);
        }
        for (k, s) in &other.sets {
            let dst = self.sets.entry(k.clone()).or_default();
            for x in s {
                dst.insert(*x);
            }
        }
    }
    pub fn to_line(&self) -> String {
        let mut c = Map::new();
        for (k, v) in &self.counters {
            c.insert(k.clone(), json!(v));
        }
        let mut s = Map::new();
        for (k, v) in &self.sets {
            s.insert(k.clone(), Value::Array(v.iter().map(|x| json!(x)).collect()));
        }
        json!({"c": c, "s": s}).to_string()
    }
    pub fn from_line(line: &str) -> Option<Cov> {
        let v: Value = serde_json::from_str(line).ok()?;
        let mut cov = Cov::new();
        for (k, x) in v.get("c")?.as_object()? {
            cov.counters.insert(k.clone(), x.as_u64()?);
        }
        for (k, x) in v.get("s")?.as_object()? {
            let set: BTreeSet<u64> = x.as_array()?.iter().filter_map(|y| y.as_u64()).collect();
            cov.sets.insert(k.clone(), set);
        }
        Some(cov)
    }
    pub fn counters_json(&self) -> Value {
        let mut c = Map::new();
        for (k, v) in &self.counters {
            c.insert(k.clone(), json!(v));
        }
        Value::Object(c)
    }
    pub fn set_sizes_json(&self) -> Value {
        let mut c = Map::new();
        for (k, v) in &self.sets {
            c.insert(k.clone(), json!(v.len()));
        }
        Value::Object(c)
    }
}
