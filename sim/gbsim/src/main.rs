mod capture;
mod cart;
mod case;
mod cov;
mod diag;
mod driver;
mod machine;
mod model;
mod prng;
mod proggen;
mod scenario;
mod setup;
mod shrink;
mod sm83;

fn usage() -> i32 {
    eprintln!("usage: gbsim check <property> <quick|thorough> | replay <file> | selftest determinism <scenario> <focus> <runs> | worker ... | runcase ...");
    2
}

fn main() {
    let args: Vec<String> = std::env::args().skip(1).collect();
    let code = match args.first().map(|s| s.as_str()) {
        Some("check") if args.len() >= 3 => driver::check_main(&args[1], &args[2]),
        Some("replay") if args.len() >= 2 => driver::replay_main(&args[1]),
        Some("worker") if args.len() >= 8 => driver::worker_main(&args[1..]),
        Some("runcase") if args.len() >= 4 => driver::runcase_main(&args[1..]),
        Some("gen") if args.len() >= 4 => {
            // gen <scenario> <index> <quick|thorough> : print the generated case
            let sc = scenario::by_name(&args[1]).expect("scenario");
            let case = driver::gen_case(sc, driver::base_seed(), args[2].parse().unwrap(), args[3] == "thorough");
            println!("{}", serde_json::to_string_pretty(&case.to_json()).unwrap());
            0
        }
        Some("diag") if args.len() >= 2 && args[1] == "cycles" => diag::cycles_table(),
        Some("diag") if args.len() >= 3 && args[1] == "trace-c03" => diag::trace_c03(&args[2]),
        Some("selftest") if args.len() >= 5 && args[1] == "determinism" => driver::selftest_determinism(&args[2], &args[3], args[4].parse().unwrap_or(1000)),
        _ => usage(),
    };
    std::process::exit(code);
}
