//! RefRender (C15): straight-line per-pixel composition of background, window
//! and objects for one frame with all inputs constant.

pub const SHADES: [u8; 4] = [255, 170, 85, 0];

pub struct RenderIn<'a> {
    pub vram: &'a [u8],
    pub oam: &'a [u8],
    pub lcdc: u8,
    pub scx: u8,
    pub scy: u8,
    pub wx: u8,
    pub wy: u8,
    pub bgp: u8,
    pub obp0: u8,
    pub obp1: u8,
    /// 8x16 objects: true = bit 0 of the tile index is ignored, false = index used as is (the statement leaves it open)
    pub mask_tall_index: bool,
}

#[derive(Clone, Copy, PartialEq, Debug)]
pub enum Layer {
    Bg,
    Window,
    Obj,
    BgOverObj,
}

fn tile_pixel(vram: &[u8], lcdc: u8, tile: u8, row: usize, col: usize) -> u8 {
    let base = if lcdc & 0x10 != 0 { tile as usize * 16 } else { (0x1000i32 + (tile as i8 as i32) * 16) as usize };
    let lo = vram[base + row * 2];
    let hi = vram[base + row * 2 + 1];
    let bit = 7 - col;
    ((hi >> bit) & 1) << 1 | ((lo >> bit) & 1)
}

fn shade(pal: u8, idx: u8) -> u8 {
    SHADES[((pal >> (idx * 2)) & 3) as usize]
}

/// returns the 160x144 shades and, per pixel, which layer produced it
pub fn render(i: &RenderIn) -> (Vec<u8>, Vec<Layer>) {
    let mut out = vec![0u8; 160 * 144];
    let mut layers = vec![Layer::Bg; 160 * 144];
    let height: i32 = if i.lcdc & 4 != 0 { 16 } else { 8 };
    for y in 0..144usize {
        // objects of this line: the first ten in OAM order whose rows cover y
        let mut objs: Vec<(usize, i32, u8, u8, i32)> = Vec::new(); // (oam index, x, tile, attr, row within object)
        if i.lcdc & 2 != 0 {
            for n in 0..40 {
                let oy = i.oam[n * 4] as i32;
                let ox = i.oam[n * 4 + 1] as i32;
                let row = y as i32 + 16 - oy;
                if row < 0 || row >= height {
                    continue;
                }
                objs.push((n, ox, i.oam[n * 4 + 2], i.oam[n * 4 + 3], row));
                if objs.len() == 10 {
                    break;
                }
            }
        }
        for x in 0..160usize {
            // background / window colour index
            let in_window = i.lcdc & 0x20 != 0 && y as i32 >= i.wy as i32 && x as i32 + 7 >= i.wx as i32;
            let (bgidx, lay) = if in_window {
                let cx = x + 7 - i.wx as usize;
                let cy = y - i.wy as usize;
                let map = if i.lcdc & 0x40 != 0 { 0x1c00 } else { 0x1800 };
                let tile = i.vram[map + (cy / 8) * 32 + (cx / 8) % 32];
                (tile_pixel(i.vram, i.lcdc, tile, cy % 8, cx % 8), Layer::Window)
            } else {
                let cx = (x + i.scx as usize) % 256;
                let cy = (y + i.scy as usize) % 256;
                let map = if i.lcdc & 0x08 != 0 { 0x1c00 } else { 0x1800 };
                let tile = i.vram[map + (cy / 8) * 32 + cx / 8];
                (tile_pixel(i.vram, i.lcdc, tile, cy % 8, cx % 8), Layer::Bg)
            };
            let mut px = shade(i.bgp, bgidx);
            let mut layer = lay;
            // object pixel: lowest X among objects with a non-zero colour here, ties by OAM index
            let mut best: Option<(i32, usize, u8, u8)> = None; // (x, index, colour, attr)
            for &(n, ox, tile, attr, row) in &objs {
                let col = x as i32 + 8 - ox;
                if col < 0 || col >= 8 {
                    continue;
                }
                let mut r = row;
                if attr & 0x40 != 0 {
                    r = height - 1 - r;
                }
                let c = if attr & 0x20 != 0 { 7 - col } else { col } as usize;
                let t = if height == 16 && i.mask_tall_index { tile & 0xfe } else { tile };
                let addr = t as usize * 16 + r as usize * 2;
                if addr + 1 >= i.vram.len() {
                    continue;
                }
                let lo = i.vram[addr];
                let hi = i.vram[addr + 1];
                let bit = 7 - c;
                let colour = ((hi >> bit) & 1) << 1 | ((lo >> bit) & 1);
                if colour == 0 {
                    continue;
                }
                let better = match best {
                    None => true,
                    Some((bx, bn, _, _)) => ox < bx || (ox == bx && n < bn),
                };
                if better {
                    best = Some((ox, n, colour, attr));
                }
            }
            if let Some((_, _, colour, attr)) = best {
                if attr & 0x80 == 0 || bgidx == 0 {
                    px = shade(if attr & 0x10 != 0 { i.obp1 } else { i.obp0 }, colour);
                    layer = Layer::Obj;
                } else {
                    layer = Layer::BgOverObj;
                }
            }
            out[y * 160 + x] = px;
            layers[y * 160 + x] = layer;
        }
    }
    (out, layers)
}
