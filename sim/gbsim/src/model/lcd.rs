//! RefLcd (C14): closed-form line/mode schedule. Position p = clocks since
//! power-on; power-on is LY=144, mode 1, dot 0.

pub const FRAME: u64 = 70224;
pub const LINE: u64 = 456;

#[derive(Clone, Copy, Debug, PartialEq)]
pub struct LcdState {
    pub ly: u8,
    pub mode: u8,
}

/// position within the frame, counted from the start of line 0
pub fn frame_pos(p: u64) -> u64 {
    (p + 144 * LINE) % FRAME
}

pub fn state_at(p: u64) -> LcdState {
    let t = frame_pos(p);
    let ly = (t / LINE) as u8;
    let d = t % LINE;
    let mode = if ly >= 144 {
        1
    } else if d < 80 {
        2
    } else if d < 268 {
        3
    } else {
        0
    };
    LcdState { ly, mode }
}

/// STAT read-back bits 0-6
pub fn stat_at(p: u64, enables: u8, lyc: u8) -> u8 {
    let s = state_at(p);
    (enables & 0x78) | if s.ly == lyc { 4 } else { 0 } | s.mode
}

/// (vblank requests, stat requests) raised at instants in (p0, p1], with constant enables/lyc
pub fn requests_between(p0: u64, p1: u64, enables: u8, lyc: u8) -> (u64, u64) {
    let mut vb = 0;
    let mut st = 0;
    if p1 <= p0 {
        return (0, 0);
    }
    // candidate instants: every line start, and mode-0 entries (line start + 268) of visible lines
    // iterate over line starts in absolute frame time T = p + 144*LINE
    let t0 = p0 + 144 * LINE;
    let t1 = p1 + 144 * LINE;
    let mut line_start = (t0 / LINE) * LINE; // start of the line containing t0
    while line_start <= t1 {
        let ly = ((line_start % FRAME) / LINE) as u8;
        // event at the line start itself
        if line_start > t0 && line_start <= t1 {
            if ly == 144 {
                vb += 1;
                if enables & 0x10 != 0 {
                    st += 1;
                }
            } else if ly < 144 && enables & 0x20 != 0 {
                st += 1;
            }
            if ly == lyc && enables & 0x40 != 0 {
                st += 1;
            }
        }
        // mode 0 entry
        let m0 = line_start + 268;
        if ly < 144 && m0 > t0 && m0 <= t1 && enables & 0x08 != 0 {
            st += 1;
        }
        line_start += LINE;
    }
    (vb, st)
}
