//! RefIntc (C07): interrupt dispatch rules, written from the statement. Bus
//! effects of the two pushes go through RefBus, so a push that lands on IE, IF,
//! a bank register, the DMA register ... has its documented effect.

use super::bus::RefBus;

pub const IME_OFF: u8 = 0;
pub const IME_ON: u8 = 1;
pub const IME_PENDING: u8 = 2;
pub const RUN: u8 = 0;

#[derive(Clone, Debug, PartialEq)]
pub struct RefCpu {
    pub pc: u16,
    pub sp: u16,
    pub ime: u8,
    pub run_state: u8,
    /// machine cycles charged but not yet delivered to the devices
    pub cycles: u32,
}

#[derive(Clone, Debug, PartialEq)]
pub enum Outcome {
    Nothing,
    WokeOnly,
    Dispatched { vector: u16, cleared: u8 },
    Cancelled,
}

/// Apply the dispatch rules. Returns the outcome and, when the statement leaves the final IF open (low-byte push
/// landing on IF), the alternative admissible IF value.
pub fn dispatch(cpu: &mut RefCpu, bus: &mut RefBus) -> (Outcome, Option<u8>) {
    let pending = bus.iflag & bus.ie & 0x1f;
    if pending == 0 {
        return (Outcome::Nothing, None);
    }
    cpu.run_state = RUN;
    if cpu.ime != IME_ON {
        return (Outcome::WokeOnly, None);
    }
    cpu.ime = IME_OFF;
    let pc = cpu.pc;
    cpu.sp = cpu.sp.wrapping_sub(1);
    bus.write(cpu.sp, (pc >> 8) as u8);
    let pending2 = bus.iflag & bus.ie & 0x1f;
    cpu.sp = cpu.sp.wrapping_sub(1);
    let low_on_if = cpu.sp == 0xff0f;
    bus.write(cpu.sp, pc as u8);
    cpu.cycles += 5;
    if pending2 == 0 {
        cpu.pc = 0x0000;
        return (Outcome::Cancelled, None);
    }
    let idx = pending2.trailing_zeros() as u16;
    let bit = 1u8 << idx;
    let mut alt = None;
    if low_on_if {
        // write-then-clear (bit cleared) or clear-then-write (written value stands): both admissible
        alt = Some(bus.iflag);
    }
    bus.iflag &= !bit;
    cpu.pc = 0x40 + 8 * idx;
    (Outcome::Dispatched { vector: cpu.pc, cleared: bit }, alt)
}

/// All admissible results of a dispatch. More than one only when the high-byte push itself lands on a register whose
/// write may, but need not, raise a request (STAT/LYC with the condition holding, DIV with the selected bit high): the
/// re-sampled pending set then has two admissible values.
pub fn dispatch_set(cpu: &RefCpu, bus: &RefBus) -> Vec<(RefCpu, RefBus, Outcome, Option<u8>)> {
    let pending = bus.iflag & bus.ie & 0x1f;
    if pending == 0 || cpu.ime != IME_ON {
        let mut c = cpu.clone();
        let mut b = bus.clone();
        let (o, a) = dispatch(&mut c, &mut b);
        return vec![(c, b, o, a)];
    }
    // replay the first half by hand to see whether the high-byte push opens a choice
    let mut probe_bus = bus.clone();
    let unknown_before = probe_bus.if_unknown;
    probe_bus.write(cpu.sp.wrapping_sub(1), (cpu.pc >> 8) as u8);
    let opened = probe_bus.if_unknown & !unknown_before & probe_bus.ie & 0x1f;
    let mut out = Vec::new();
    for choice in [false, true] {
        if choice && opened == 0 {
            break;
        }
        let mut c = cpu.clone();
        let mut b = bus.clone();
        // same steps as `dispatch`, with the opened request bits decided
        c.run_state = RUN;
        c.ime = IME_OFF;
        let pc = c.pc;
        c.sp = c.sp.wrapping_sub(1);
        b.write(c.sp, (pc >> 8) as u8);
        if opened != 0 {
            b.if_unknown &= !opened;
            if choice {
                b.iflag |= opened;
            }
        }
        let pending2 = b.iflag & b.ie & 0x1f;
        c.sp = c.sp.wrapping_sub(1);
        let low_on_if = c.sp == 0xff0f;
        b.write(c.sp, pc as u8);
        c.cycles += 5;
        if pending2 == 0 {
            c.pc = 0;
            out.push((c, b, Outcome::Cancelled, None));
            continue;
        }
        let idx = pending2.trailing_zeros() as u16;
        let bit = 1u8 << idx;
        let alt = if low_on_if { Some(b.iflag) } else { None };
        b.iflag &= !bit;
        c.pc = 0x40 + 8 * idx;
        let o = Outcome::Dispatched { vector: c.pc, cleared: bit };
        out.push((c, b, o, alt));
    }
    out
}
