//! RefBus (C10, used by C16 and C07): the documented Game Boy memory map with
//! small device models behind the readable I/O registers. Written from the
//! property statements; calls nothing in the shadow crates.

use super::joypad::RefJoypad;
use super::lcd;
use super::mbc::RefMbc;
use super::timer::RefTimer;
use std::collections::BTreeMap;

#[derive(Clone, Copy, Debug, PartialEq)]
pub enum Expect {
    /// all bits in `mask` must equal `value`
    Bits { value: u8, mask: u8 },
    /// unmapped: must be the same value every time this address is read, whatever was written
    Constant,
    /// the statement does not define what is read here
    Unspecified,
}

impl Expect {
    pub fn exact(v: u8) -> Expect {
        Expect::Bits { value: v, mask: 0xff }
    }
}

#[derive(Clone)]
pub struct RefBus {
    pub rom: Vec<u8>,
    pub mbc: RefMbc,
    pub vram: Vec<u8>,
    pub cram: Vec<u8>,
    pub wram: Vec<u8>,
    pub oam: Vec<u8>,
    /// false: the model cannot know the byte (copied by DMA from a source whose value the statement leaves open); learned on first read
    pub oam_known: Vec<bool>,
    pub hram: Vec<u8>,
    pub ie: u8,
    pub constants: BTreeMap<u16, u8>,
    /// admissible timer states (spec set: DIV write while the selected bit is high)
    pub timers: Vec<RefTimer>,
    pub joy: RefJoypad,
    pub lcd_pos: u64,
    pub stat_enables: u8,
    pub lyc: u8,
    pub regs: BTreeMap<u16, u8>, // LCDC SCY SCX BGP OBP0 OBP1 WY WX
    pub iflag: u8,
    /// IF bits whose value the statement leaves open at the moment (request raised by a STAT/LYC/DIV write)
    pub if_unknown: u8,
    pub dma: Option<(u16, u8)>,
    /// LCDC bit 7 has been written 0 at some point: what LY, the STAT status bits and the VBlank/STAT requests do while the
    /// display is off (and where the schedule restarts) is not specified, so they are not asserted any more
    pub lcd_was_off: bool,
    /// bytes copied by DMA so far (probe)
    pub dma_copied: u64,
}

pub const PLAIN_REGS: [u16; 8] = [0xff40, 0xff42, 0xff43, 0xff47, 0xff48, 0xff49, 0xff4a, 0xff4b];

impl RefBus {
    pub fn new(rom: Vec<u8>, cart_type: u8, rom_banks: usize, ram_bytes: usize) -> RefBus {
        let mut regs = BTreeMap::new();
        for r in PLAIN_REGS {
            regs.insert(r, 0u8);
        }
        RefBus {
            rom,
            mbc: RefMbc::new(cart_type, rom_banks, ram_bytes),
            vram: vec![0; 0x2000],
            cram: vec![0; ram_bytes],
            wram: vec![0; 0x2000],
            oam: vec![0; 0xa0],
            oam_known: vec![true; 0xa0],
            hram: vec![0; 0x7f],
            ie: 0,
            constants: BTreeMap::new(),
            timers: vec![RefTimer::new()],
            joy: RefJoypad::new(),
            lcd_pos: 0,
            stat_enables: 0,
            lyc: 0,
            regs,
            iflag: 0,
            if_unknown: 0,
            dma: None,
            lcd_was_off: false,
            dma_copied: 0,
        }
    }

    fn cram_index(&self, a: u16) -> Option<usize> {
        let i = self.mbc.ram_bank() * 0x2000 + (a as usize & 0x1fff);
        if i < self.cram.len() && !self.mbc.rtc_selected {
            Some(i)
        } else {
            None
        }
    }

    pub fn rom_byte(&self, a: u16) -> u8 {
        let off = if a < 0x4000 { a as usize } else { self.mbc.rom_bank() * 0x4000 + (a as usize & 0x3fff) };
        self.rom.get(off).copied().unwrap_or(0)
    }

    /// what a read of `a` must return
    pub fn expect(&self, a: u16) -> Expect {
        match a {
            0x0000..=0x7fff => Expect::exact(self.rom_byte(a)),
            0x8000..=0x9fff => Expect::exact(self.vram[a as usize & 0x1fff]),
            0xa000..=0xbfff => match self.cram_index(a) {
                Some(i) => Expect::exact(self.cram[i]),
                None => Expect::Unspecified,
            },
            0xc000..=0xdfff => Expect::exact(self.wram[a as usize & 0x1fff]),
            0xe000..=0xfdff => Expect::Constant,
            0xfe00..=0xfe9f => {
                if self.oam_known[a as usize & 0xff] {
                    Expect::exact(self.oam[a as usize & 0xff])
                } else {
                    Expect::Unspecified
                }
            }
            0xfea0..=0xfeff => Expect::Constant,
            0xff00 => Expect::Bits { value: self.joy.p1(), mask: 0x3f },
            0xff01 | 0xff02 => Expect::Unspecified,
            0xff04 => {
                let v = self.timers[0].div();
                if self.timers.iter().all(|t| t.div() == v) {
                    Expect::exact(v)
                } else {
                    Expect::Unspecified
                }
            }
            0xff05 => {
                let v = self.timers[0].tima;
                if self.timers.iter().all(|t| t.tima == v) {
                    Expect::exact(v)
                } else {
                    Expect::Unspecified
                }
            }
            0xff06 => Expect::exact(self.timers[0].tma),
            0xff07 => Expect::Bits { value: self.timers[0].tac, mask: 0x07 },
            0xff0f => Expect::Bits { value: self.iflag, mask: 0x1f & !self.if_unknown & if self.lcd_was_off { !3 } else { 0xff } },
            0xff41 => Expect::Bits { value: lcd::stat_at(self.lcd_pos, self.stat_enables, self.lyc), mask: if self.lcd_was_off { 0x78 } else { 0x7f } },
            0xff44 => {
                if self.lcd_was_off {
                    Expect::Unspecified
                } else {
                    Expect::exact(lcd::state_at(self.lcd_pos).ly)
                }
            }
            0xff45 => Expect::exact(self.lyc),
            0xff46 => Expect::Unspecified,
            0xff40 | 0xff42 | 0xff43 | 0xff47 | 0xff48 | 0xff49 | 0xff4a | 0xff4b => Expect::exact(self.regs[&a]),
            0xff00..=0xff7f => Expect::Constant,
            0xff80..=0xfffe => Expect::exact(self.hram[a as usize & 0x7f]),
            0xffff => Expect::exact(self.ie),
        }
    }

    /// Feed back an observed read so that open choices are resolved (constants, spec sets). Returns false when the
    /// observation contradicts the model.
    pub fn observe(&mut self, a: u16, got: u8) -> bool {
        match self.expect(a) {
            Expect::Bits { value, mask } => {
                if got & mask != value & mask {
                    return false;
                }
                if a == 0xff0f && self.if_unknown != 0 {
                    self.iflag = (self.iflag & !self.if_unknown) | (got & self.if_unknown);
                    self.if_unknown = 0;
                }
                true
            }
            Expect::Constant => match self.constants.get(&a) {
                Some(v) => *v == got,
                None => {
                    self.constants.insert(a, got);
                    true
                }
            },
            Expect::Unspecified => {
                match a {
                    0xfe00..=0xfe9f => {
                        self.oam[a as usize & 0xff] = got;
                        self.oam_known[a as usize & 0xff] = true;
                    }
                    0xff04 => {
                        let keep: Vec<RefTimer> = self.timers.iter().filter(|t| t.div() == got).cloned().collect();
                        if keep.is_empty() {
                            return false;
                        }
                        self.timers = keep;
                    }
                    0xff05 => {
                        let keep: Vec<RefTimer> = self.timers.iter().filter(|t| t.tima == got).cloned().collect();
                        if keep.is_empty() {
                            return false;
                        }
                        self.timers = keep;
                    }
                    _ => {}
                }
                true
            }
        }
    }

    fn timer_requests(&mut self, before: &[u64]) {
        // a request in every admissible state -> raised; in some -> unknown
        let raised: Vec<bool> = self.timers.iter().zip(before.iter()).map(|(t, b)| t.requests > *b).collect();
        if raised.iter().all(|r| *r) {
            self.iflag |= 4;
            self.if_unknown &= !4;
        } else if raised.iter().any(|r| *r) {
            self.if_unknown |= 4;
        }
    }

    pub fn write(&mut self, a: u16, v: u8) {
        match a {
            0x0000..=0x7fff => self.mbc.write(a, v),
            0x8000..=0x9fff => self.vram[a as usize & 0x1fff] = v,
            0xa000..=0xbfff => {
                if let Some(i) = self.cram_index(a) {
                    self.cram[i] = v;
                }
            }
            0xc000..=0xdfff => self.wram[a as usize & 0x1fff] = v,
            0xe000..=0xfdff => {}
            0xfe00..=0xfe9f => {
                self.oam[a as usize & 0xff] = v;
                self.oam_known[a as usize & 0xff] = true;
            }
            0xfea0..=0xfeff => {}
            0xff00 => self.joy.write(v),
            0xff04 => {
                let before: Vec<u64> = self.timers.iter().map(|t| t.requests).collect();
                let mut forks = Vec::new();
                let mut fork_before = Vec::new();
                for (t, b) in self.timers.iter_mut().zip(before.iter()) {
                    if t.write_div() {
                        let mut alt = t.clone();
                        alt.inc();
                        forks.push(alt);
                        fork_before.push(*b);
                    }
                }
                let mut all_before = before.clone();
                all_before.extend(fork_before);
                self.timers.extend(forks);
                self.timers.truncate(8);
                all_before.truncate(self.timers.len());
                self.timer_requests(&all_before);
            }
            0xff05 => {
                for t in self.timers.iter_mut() {
                    t.tima = v;
                }
            }
            0xff06 => {
                for t in self.timers.iter_mut() {
                    t.tma = v;
                }
            }
            0xff07 => {
                let before: Vec<u64> = self.timers.iter().map(|t| t.requests).collect();
                for t in self.timers.iter_mut() {
                    t.write_tac(v);
                }
                self.timer_requests(&before);
            }
            0xff0f => {
                self.iflag = v & 0x1f;
                self.if_unknown = 0;
            }
            0xff41 => {
                self.stat_enables = v & 0x78;
                self.stat_write_request();
            }
            0xff45 => {
                self.lyc = v;
                self.stat_write_request();
            }
            0xff46 => self.dma = Some(((v as u16) << 8, 0)),
            0xff40 | 0xff42 | 0xff43 | 0xff47 | 0xff48 | 0xff49 | 0xff4a | 0xff4b => {
                if a == 0xff40 && v & 0x80 == 0 {
                    self.lcd_was_off = true;
                }
                self.regs.insert(a, v);
            }
            0xff00..=0xff7f => {}
            0xff80..=0xfffe => self.hram[a as usize & 0x7f] = v,
            0xffff => self.ie = v,
        }
    }

    /// a STAT/LYC write whose condition holds may (not must) raise a STAT request
    fn stat_write_request(&mut self) {
        let s = lcd::state_at(self.lcd_pos);
        let en = self.stat_enables;
        let may = (en & 0x40 != 0 && s.ly == self.lyc) || (en & 0x20 != 0 && s.mode == 2) || (en & 0x10 != 0 && s.mode == 1) || (en & 0x08 != 0 && s.mode == 0);
        if may && self.iflag & 2 == 0 {
            self.if_unknown |= 2;
        }
    }

    /// value the DMA engine reads at `a`, None when the statement leaves it open
    fn dma_source(&self, a: u16) -> Option<u8> {
        match self.expect(a) {
            Expect::Bits { value, mask: 0xff } => Some(value),
            Expect::Constant => self.constants.get(&a).copied(),
            _ => None,
        }
    }

    /// one machine cycle: DMA byte first (it reads the map as it stands), then devices
    pub fn machine_cycle(&mut self) {
        if let Some((src, n)) = self.dma {
            let a = src.wrapping_add(n as u16);
            match self.dma_source(a) {
                Some(v) => {
                    self.oam[n as usize] = v;
                    self.oam_known[n as usize] = true;
                }
                None => self.oam_known[n as usize] = false,
            }
            self.dma_copied += 1;
            self.dma = if n + 1 >= 0xa0 { None } else { Some((src, n + 1)) };
        }
        let before: Vec<u64> = self.timers.iter().map(|t| t.requests).collect();
        for t in self.timers.iter_mut() {
            t.advance(4);
        }
        self.timer_requests(&before);
        let (vb, st) = lcd::requests_between(self.lcd_pos, self.lcd_pos + 4, self.stat_enables, self.lyc);
        self.lcd_pos += 4;
        if vb > 0 {
            self.iflag |= 1;
        }
        if st > 0 {
            self.iflag |= 2;
            self.if_unknown &= !2;
        }
        if self.joy.collect() {
            self.iflag |= 0x10;
        }
    }

    pub fn advance(&mut self, clocks: u64) {
        for _ in 0..clocks / 4 {
            self.machine_cycle();
        }
    }
}
