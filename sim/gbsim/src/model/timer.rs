//! RefTimer (C13): 16-bit divider advanced one clock at a time.

#[derive(Clone, Debug)]
pub struct RefTimer {
    pub div16: u16,
    pub tima: u8,
    pub tma: u8,
    pub tac: u8,
    /// requests raised since last cleared by the observer
    pub requests: u64,
    pub overflows: u64,
}

impl RefTimer {
    pub fn new() -> RefTimer {
        RefTimer { div16: 0, tima: 0, tma: 0, tac: 0, requests: 0, overflows: 0 }
    }
    pub fn bit(&self) -> u32 {
        [9, 3, 5, 7][(self.tac & 3) as usize]
    }
    pub fn level(&self) -> bool {
        (self.tac & 4) != 0 && (self.div16 >> self.bit()) & 1 != 0
    }
    pub fn inc(&mut self) {
        if self.tima == 0xff {
            self.tima = self.tma;
            self.requests += 1;
            self.overflows += 1;
        } else {
            self.tima += 1;
        }
    }
    pub fn tick(&mut self) {
        let old = self.level();
        self.div16 = self.div16.wrapping_add(1);
        if old && !self.level() {
            self.inc();
        }
    }
    pub fn advance(&mut self, clocks: u64) {
        if self.tac & 4 == 0 {
            self.div16 = self.div16.wrapping_add(clocks as u16);
            return;
        }
        for _ in 0..clocks {
            self.tick();
        }
    }
    pub fn div(&self) -> u8 {
        (self.div16 >> 8) as u8
    }
    pub fn write_tac(&mut self, v: u8) {
        let old = self.level();
        self.tac = v;
        if old && !self.level() {
            self.inc();
        }
    }
    /// returns true when the selected bit was high (spec set: increment admissible either way)
    pub fn write_div(&mut self) -> bool {
        let old = self.level();
        self.div16 = 0;
        old
    }
    /// clocks until the next falling edge of the selected bit (>=1), assuming enabled
    pub fn clocks_to_edge(&self) -> u64 {
        let period = 1u64 << (self.bit() + 1);
        let pos = self.div16 as u64 & (period - 1);
        period - pos
    }
}
