//! RefIme (C08): the master-enable / HALT / STOP state machine, stepped one
//! instruction at a time over a small instruction alphabet, with dispatch by
//! RefIntc and memory effects through RefBus.

use super::bus::{Expect, RefBus};
use super::intc::{dispatch, Outcome, RefCpu, IME_OFF, IME_ON, IME_PENDING, RUN};

pub const HALT: u8 = 1;
pub const STOP: u8 = 2;

#[derive(Clone, Copy, Debug, PartialEq)]
pub enum Ins {
    Nop,
    Ei,
    Di,
    Reti,
    Ret,
    Halt,
    Stop,
    LdAImm,
    StoreA16,
    StoreHigh,
    Jr,
    /// while halted / stopped: one machine cycle passes
    Idle,
    /// something outside the alphabet: the run ends here
    Unknown(u8),
}

pub struct StepInfo {
    pub ins: Ins,
    pub outcome: Outcome,
    pub alt_if: Option<u8>,
    /// HALT/STOP executed while an enabled request was already pending (outside the property's quantifier)
    pub halt_with_pending: bool,
}

pub struct RefIme {
    pub cpu: RefCpu,
    pub a: u8,
}

fn rd(bus: &RefBus, a: u16) -> Option<u8> {
    match bus.expect(a) {
        Expect::Bits { value, mask: 0xff } => Some(value),
        _ => None,
    }
}

impl RefIme {
    pub fn new(pc: u16, sp: u16, ime: u8, run_state: u8) -> RefIme {
        RefIme { cpu: RefCpu { pc, sp, ime, run_state, cycles: 0 }, a: 0 }
    }

    /// what the next instruction is (None when halted or unreadable)
    pub fn peek(&self, bus: &RefBus) -> Ins {
        if self.cpu.run_state != RUN {
            return Ins::Idle;
        }
        // the emulator executes from cartridge ROM, work RAM (and its echo) and high RAM only; a return address popped from
        // elsewhere (e.g. after a dispatch whose pushes landed on IE) leaves the alphabet of this property
        if !matches!(self.cpu.pc, 0x0000..=0x7fff | 0xc000..=0xfe9f | 0xff80..=0xfffe) {
            return Ins::Unknown(0);
        }
        // ... and an instruction that would straddle the end of the region its first byte lies in is outside it as well
        // (the emulator decodes from a slice that ends there)
        let len: u32 = match rd(bus, self.cpu.pc) {
            Some(0x3e) | Some(0xe0) | Some(0x18) | Some(0x10) => 2,
            Some(0xea) => 3,
            _ => 1,
        };
        let pc = self.cpu.pc as u32;
        let room = match self.cpu.pc {
            0x0000..=0x7fff => 0x4000 - (pc & 0x3fff),
            0xc000..=0xfe9f => 0x1000 - (pc & 0x0fff),
            _ => 0xffff - pc,
        };
        if len > room {
            return Ins::Unknown(0);
        }
        match rd(bus, self.cpu.pc) {
            Some(0x00) => Ins::Nop,
            Some(0xfb) => Ins::Ei,
            Some(0xf3) => Ins::Di,
            Some(0xd9) => Ins::Reti,
            Some(0xc9) => Ins::Ret,
            Some(0x76) => Ins::Halt,
            Some(0x10) => Ins::Stop,
            Some(0x3e) => Ins::LdAImm,
            Some(0xea) => Ins::StoreA16,
            Some(0xe0) => Ins::StoreHigh,
            Some(0x18) => Ins::Jr,
            Some(x) => Ins::Unknown(x),
            None => Ins::Unknown(0),
        }
    }

    fn pop(&mut self, bus: &RefBus) -> Option<u16> {
        let lo = rd(bus, self.cpu.sp)?;
        let hi = rd(bus, self.cpu.sp.wrapping_add(1))?;
        self.cpu.sp = self.cpu.sp.wrapping_add(2);
        Some((hi as u16) << 8 | lo as u16)
    }

    /// one Core::update() in an instruction-stepped build
    pub fn step(&mut self, bus: &mut RefBus) -> StepInfo {
        let ins = self.peek(bus);
        let mut halt_with_pending = false;
        if ins == Ins::Idle {
            bus.advance(4);
            let (outcome, alt_if) = dispatch(&mut self.cpu, bus);
            return StepInfo { ins, outcome, alt_if, halt_with_pending };
        }
        let was_pending = self.cpu.ime == IME_PENDING;
        let pc = self.cpu.pc;
        let op1 = rd(bus, pc.wrapping_add(1)).unwrap_or(0);
        let op2 = rd(bus, pc.wrapping_add(2)).unwrap_or(0);
        let mut cycles = 1u32;
        // an EI executed earlier takes effect once this instruction has completed
        let mut ime_after = if was_pending { IME_ON } else { self.cpu.ime };
        match ins {
            Ins::Nop => self.cpu.pc = pc.wrapping_add(1),
            Ins::Ei => {
                self.cpu.pc = pc.wrapping_add(1);
                if ime_after == IME_OFF {
                    ime_after = IME_PENDING;
                }
            }
            Ins::Di => {
                self.cpu.pc = pc.wrapping_add(1);
                ime_after = IME_OFF;
            }
            Ins::Reti => {
                cycles = 4;
                match self.pop(bus) {
                    Some(t) => self.cpu.pc = t,
                    None => return StepInfo { ins: Ins::Unknown(0xd9), outcome: Outcome::Nothing, alt_if: None, halt_with_pending },
                }
                ime_after = IME_ON;
            }
            Ins::Ret => {
                cycles = 4;
                match self.pop(bus) {
                    Some(t) => self.cpu.pc = t,
                    None => return StepInfo { ins: Ins::Unknown(0xc9), outcome: Outcome::Nothing, alt_if: None, halt_with_pending },
                }
            }
            Ins::Halt => {
                self.cpu.pc = pc.wrapping_add(1);
                self.cpu.run_state = HALT;
            }
            Ins::Stop => {
                self.cpu.pc = pc.wrapping_add(2);
                self.cpu.run_state = STOP;
            }
            Ins::LdAImm => {
                cycles = 2;
                self.a = op1;
                self.cpu.pc = pc.wrapping_add(2);
            }
            Ins::StoreA16 => {
                cycles = 4;
                bus.write((op2 as u16) << 8 | op1 as u16, self.a);
                self.cpu.pc = pc.wrapping_add(3);
            }
            Ins::StoreHigh => {
                cycles = 3;
                bus.write(0xff00 | op1 as u16, self.a);
                self.cpu.pc = pc.wrapping_add(2);
            }
            Ins::Jr => {
                cycles = 3;
                self.cpu.pc = pc.wrapping_add(2).wrapping_add(op1 as i8 as u16);
            }
            Ins::Idle | Ins::Unknown(_) => return StepInfo { ins, outcome: Outcome::Nothing, alt_if: None, halt_with_pending },
        }
        self.cpu.ime = ime_after;
        let consumed = self.cpu.cycles + cycles;
        self.cpu.cycles = 0;
        bus.advance(4 * consumed as u64);
        if matches!(ins, Ins::Halt | Ins::Stop) && bus.iflag & bus.ie & 0x1f != 0 {
            halt_with_pending = true;
        }
        let (outcome, alt_if) = dispatch(&mut self.cpu, bus);
        StepInfo { ins, outcome, alt_if, halt_with_pending }
    }
}
