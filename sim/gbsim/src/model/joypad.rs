//! RefJoypad (C17): 8 buttons, 2 select bits, 4 input lines, a request latch.

#[derive(Clone, Debug)]
pub struct RefJoypad {
    /// bit i set = button pressed; 0-3 A,B,Select,Start; 4-7 Right,Left,Up,Down
    pub buttons: u8,
    /// bits 4,5 as last written to P1 (1 = group not selected)
    pub select: u8,
    pub latch: bool,
}

impl RefJoypad {
    pub fn new() -> RefJoypad {
        RefJoypad { buttons: 0, select: 0x30, latch: false }
    }
    /// the four input lines (1 = high)
    pub fn lines(&self) -> u8 {
        let mut low = 0u8;
        if self.select & 0x10 == 0 {
            low |= self.buttons >> 4;
        }
        if self.select & 0x20 == 0 {
            low |= self.buttons & 0x0f;
        }
        !low & 0x0f
    }
    pub fn p1(&self) -> u8 {
        self.lines() | self.select
    }
    fn after(&mut self, before: u8) {
        if before & !self.lines() & 0x0f != 0 {
            self.latch = true;
        }
    }
    pub fn press(&mut self, b: u8) {
        let l = self.lines();
        self.buttons |= 1 << (b & 7);
        self.after(l);
    }
    pub fn release(&mut self, b: u8) {
        let l = self.lines();
        self.buttons &= !(1 << (b & 7));
        self.after(l);
    }
    pub fn write(&mut self, v: u8) {
        let l = self.lines();
        self.select = v & 0x30;
        self.after(l);
    }
    pub fn collect(&mut self) -> bool {
        std::mem::replace(&mut self.latch, false)
    }
}
