//! RefHeader (C19): cartridge header decoding as the header tables define it.

pub fn checksum(bytes_0x134_to_0x14c: &[u8]) -> u8 {
    let mut x: u8 = 0;
    for b in bytes_0x134_to_0x14c {
        x = x.wrapping_sub(*b).wrapping_sub(1);
    }
    x
}

/// ROM size in bytes for a size code, None when the code is outside the table
pub fn rom_bytes(code: u8) -> Option<usize> {
    match code {
        0..=8 => Some(0x8000usize << code),
        0x52 => Some(72 * 0x4000),
        0x53 => Some(80 * 0x4000),
        0x54 => Some(96 * 0x4000),
        _ => None,
    }
}

pub fn ram_bytes(code: u8) -> Option<usize> {
    match code {
        0 => Some(0),
        1 => Some(2 * 1024),
        2 => Some(8 * 1024),
        3 => Some(32 * 1024),
        4 => Some(128 * 1024),
        5 => Some(64 * 1024),
        _ => None,
    }
}

pub fn supported_type(t: u8) -> bool {
    matches!(t, 0x00 | 0x01 | 0x02 | 0x03 | 0x11 | 0x12 | 0x13)
}
