//! RefMbc (C12): the MBC1 / MBC3 register protocol as the property states it.

#[derive(Clone, Debug)]
pub struct RefMbc {
    pub kind: u8, // 0 none, 1 MBC1, 3 MBC3
    pub rom_banks: usize,
    pub ram_banks: usize, // number of 8 KiB banks (0 when no RAM; 1 for 2 KiB)
    pub ramg: bool,
    pub low: u8,
    pub hi2: u8,
    pub mode: u8,
    pub mbc3_ram: u8,
    /// MBC3: an RTC register (0x08-0x0C) is selected instead of a RAM bank
    pub rtc_selected: bool,
}

pub fn kind_of(cart_type: u8) -> u8 {
    match cart_type {
        0x01..=0x03 => 1,
        0x11..=0x13 => 3,
        _ => 0,
    }
}

impl RefMbc {
    pub fn new(cart_type: u8, rom_banks: usize, ram_bytes: usize) -> RefMbc {
        RefMbc {
            kind: kind_of(cart_type),
            rom_banks: rom_banks.max(2),
            ram_banks: if ram_bytes == 0 { 0 } else { (ram_bytes / 0x2000).max(1) },
            ramg: false,
            low: if kind_of(cart_type) == 0 { 1 } else { 1 },
            hi2: 0,
            mode: 0,
            mbc3_ram: 0,
            rtc_selected: false,
        }
    }
    pub fn write(&mut self, addr: u16, v: u8) {
        match self.kind {
            1 => match addr {
                0x0000..=0x1fff => self.ramg = v & 0x0f == 0x0a,
                0x2000..=0x3fff => self.low = v & 0x1f,
                0x4000..=0x5fff => self.hi2 = v & 3,
                0x6000..=0x7fff => self.mode = v & 1,
                _ => {}
            },
            3 => match addr {
                0x0000..=0x1fff => self.ramg = v & 0x0f == 0x0a,
                0x2000..=0x3fff => self.low = v & 0x7f,
                0x4000..=0x5fff => {
                    if v < 4 {
                        self.mbc3_ram = v;
                        self.rtc_selected = false;
                    } else {
                        // RTC register selection / other values: not specified by the statement
                        self.rtc_selected = true;
                    }
                }
                _ => {}
            },
            _ => {}
        }
    }
    /// bank visible at 0x4000-0x7FFF
    pub fn rom_bank(&self) -> usize {
        let raw = match self.kind {
            1 => {
                let low = if self.low == 0 { 1 } else { self.low } as usize;
                if self.mode == 0 {
                    ((self.hi2 as usize) << 5) | low
                } else {
                    low
                }
            }
            3 => {
                if self.low == 0 {
                    1
                } else {
                    self.low as usize
                }
            }
            _ => 1,
        };
        raw % self.rom_banks
    }
    /// bank visible at 0xA000-0xBFFF (meaningful when ram_banks > 0 and !rtc_selected)
    pub fn ram_bank(&self) -> usize {
        let raw = match self.kind {
            1 => {
                if self.mode == 1 {
                    self.hi2 as usize
                } else {
                    0
                }
            }
            3 => self.mbc3_ram as usize,
            _ => 0,
        };
        if self.ram_banks == 0 {
            0
        } else {
            raw % self.ram_banks
        }
    }
}
