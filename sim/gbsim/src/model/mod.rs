//! Reference models, written from the property statements. None of them calls
//! into the shadow crates.
pub mod mbc;
pub mod timer;
