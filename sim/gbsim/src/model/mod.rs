//! Reference models, written from the property statements. None of them calls
//! into the shadow crates.
pub mod mbc;
pub mod timer;
pub mod joypad;
pub mod lcd;
pub mod bus;
pub mod intc;
pub mod ime;
pub mod header;
pub mod render;
