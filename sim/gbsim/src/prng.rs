//! The only source of randomness in a run: SplitMix64 seeding xoshiro256**.
//! Hand-written so that a replay never depends on a crate's stream.

#[derive(Clone)]
pub struct Rng {
    s: [u64; 4],
    pub draws: u64,
}

pub fn splitmix(x: &mut u64) -> u64 {
    *x = x.wrapping_add(0x9E37_79B9_7F4A_7C15);
    let mut z = *x;
    z = (z ^ (z >> 30)).wrapping_mul(0xBF58_476D_1CE4_E5B9);
    z = (z ^ (z >> 27)).wrapping_mul(0x94D0_49BB_1331_11EB);
    z ^ (z >> 31)
}

/// Mix (base seed, scenario tag, run index) into the seed of one run.
pub fn run_seed(base: u64, tag: &str, index: u64) -> u64 {
    let mut h = base ^ 0x5851_F42D_4C95_7F2D;
    for b in tag.bytes() {
        h = (h ^ b as u64).wrapping_mul(0x1000_0000_01B3);
    }
    let mut x = h ^ index.wrapping_mul(0xD605_0C2B_9A5B_4C11);
    let a = splitmix(&mut x);
    let b = splitmix(&mut x);
    a ^ b.rotate_left(17)
}

impl Rng {
    pub fn new(seed: u64) -> Self {
        let mut x = seed;
        let s = [splitmix(&mut x), splitmix(&mut x), splitmix(&mut x), splitmix(&mut x)];
        Rng { s, draws: 0 }
    }
    pub fn next(&mut self) -> u64 {
        self.draws += 1;
        let r = self.s[1].wrapping_mul(5).rotate_left(7).wrapping_mul(9);
        let t = self.s[1] << 17;
        self.s[2] ^= self.s[0];
        self.s[3] ^= self.s[1];
        self.s[1] ^= self.s[2];
        self.s[0] ^= self.s[3];
        self.s[2] ^= t;
        self.s[3] = self.s[3].rotate_left(45);
        r
    }
    /// uniform in 0..n (n > 0)
    pub fn below(&mut self, n: u64) -> u64 {
        debug_assert!(n > 0);
        ((self.next() as u128 * n as u128) >> 64) as u64
    }
    /// uniform in lo..=hi
    pub fn range(&mut self, lo: i64, hi: i64) -> i64 {
        lo + self.below((hi - lo + 1) as u64) as i64
    }
    pub fn chance(&mut self, num: u64, den: u64) -> bool {
        self.below(den) < num
    }
    pub fn pick<T: Copy>(&mut self, xs: &[T]) -> T {
        xs[self.below(xs.len() as u64) as usize]
    }
    pub fn byte(&mut self) -> u8 {
        self.next() as u8
    }
    /// boundary-biased byte
    pub fn byte_b(&mut self) -> u8 {
        if self.chance(1, 2) {
            self.pick(&[0x00, 0x01, 0x0f, 0x10, 0x7f, 0x80, 0xfe, 0xff, 0x09, 0x0a, 0x99, 0x9a, 0xa0, 0x66, 0x60, 0x06])
        } else {
            self.byte()
        }
    }
    pub fn word(&mut self) -> u16 {
        self.next() as u16
    }
}

/// cheap 64-bit hash for digests (FNV-1a over 8-byte words, then bytes)
pub fn hash_bytes(data: &[u8]) -> u64 {
    let mut h: u64 = 0xcbf2_9ce4_8422_2325;
    let mut chunks = data.chunks_exact(8);
    for c in &mut chunks {
        let w = u64::from_le_bytes([c[0], c[1], c[2], c[3], c[4], c[5], c[6], c[7]]);
        h = (h ^ w).wrapping_mul(0x1000_0000_01B3);
        h ^= h >> 29;
    }
    for &b in chunks.remainder() {
        h = (h ^ b as u64).wrapping_mul(0x1000_0000_01B3);
    }
    h
}

pub fn hash_u64s(xs: &[u64]) -> u64 {
    let mut h: u64 = 0xcbf2_9ce4_8422_2325;
    for &w in xs {
        h = (h ^ w).wrapping_mul(0x1000_0000_01B3);
        h ^= h >> 29;
    }
    h
}
