//! Generic, explicit case format: everything a run does is spelled out here, so
//! that a replay executes this list and never the generator.

use serde_json::{json, Map, Value};
use std::collections::BTreeMap;

#[derive(Clone, Debug, PartialEq)]
pub struct Op {
    pub k: &'static str,
    pub a: Vec<i64>,
}

impl Op {
    pub fn new(k: &'static str, a: &[i64]) -> Op {
        Op { k, a: a.to_vec() }
    }
    /// argument i, 0 when absent (shrunk cases stay runnable)
    pub fn arg(&self, i: usize) -> i64 {
        self.a.get(i).copied().unwrap_or(0)
    }
}

#[derive(Clone, Debug, PartialEq)]
pub struct Case {
    pub scenario: String,
    pub seed: u64,
    pub index: u64,
    pub p: BTreeMap<String, i64>,
    pub blobs: BTreeMap<String, Vec<u8>>,
    pub ops: Vec<Op>,
}

fn intern(s: &str) -> &'static str {
    use std::sync::Mutex;
    static TABLE: Mutex<Vec<&'static str>> = Mutex::new(Vec::new());
    let mut t = TABLE.lock().unwrap();
    for k in t.iter() {
        if *k == s {
            return k;
        }
    }
    let leaked: &'static str = Box::leak(s.to_string().into_boxed_str());
    t.push(leaked);
    leaked
}

pub fn hex(bytes: &[u8]) -> String {
    let mut s = String::with_capacity(bytes.len() * 2);
    for b in bytes {
        s.push_str(&format!("{:02x}", b));
    }
    s
}

pub fn unhex(s: &str) -> Vec<u8> {
    let b = s.as_bytes();
    let mut out = Vec::with_capacity(b.len() / 2);
    let mut i = 0;
    while i + 1 < b.len() {
        let h = (b[i] as char).to_digit(16).unwrap_or(0) as u8;
        let l = (b[i + 1] as char).to_digit(16).unwrap_or(0) as u8;
        out.push((h << 4) | l);
        i += 2;
    }
    out
}

impl Case {
    pub fn new(scenario: &str, seed: u64, index: u64) -> Case {
        Case { scenario: scenario.to_string(), seed, index, p: BTreeMap::new(), blobs: BTreeMap::new(), ops: Vec::new() }
    }
    pub fn get(&self, key: &str) -> i64 {
        self.p.get(key).copied().unwrap_or(0)
    }
    pub fn get_or(&self, key: &str, default: i64) -> i64 {
        self.p.get(key).copied().unwrap_or(default)
    }
    pub fn set(&mut self, key: &str, v: i64) {
        self.p.insert(key.to_string(), v);
    }
    pub fn blob(&self, key: &str) -> &[u8] {
        self.blobs.get(key).map(|v| v.as_slice()).unwrap_or(&[])
    }
    pub fn push(&mut self, k: &'static str, a: &[i64]) {
        self.ops.push(Op::new(k, a));
    }

    pub fn to_json(&self) -> Value {
        let mut p = Map::new();
        for (k, v) in &self.p {
            p.insert(k.clone(), json!(v));
        }
        let mut b = Map::new();
        for (k, v) in &self.blobs {
            b.insert(k.clone(), json!(hex(v)));
        }
        let ops: Vec<Value> = self
            .ops
            .iter()
            .map(|o| {
                let mut v = vec![json!(o.k)];
                v.extend(o.a.iter().map(|x| json!(x)));
                Value::Array(v)
            })
            .collect();
        json!({"scenario": self.scenario, "seed": self.seed, "index": self.index, "params": p, "blobs": b, "ops": ops})
    }

    pub fn from_json(v: &Value) -> Option<Case> {
        let mut c = Case::new(v.get("scenario")?.as_str()?, v.get("seed")?.as_u64()?, v.get("index").and_then(|x| x.as_u64()).unwrap_or(0));
        if let Some(p) = v.get("params").and_then(|x| x.as_object()) {
            for (k, x) in p {
                c.p.insert(k.clone(), x.as_i64()?);
            }
        }
        if let Some(b) = v.get("blobs").and_then(|x| x.as_object()) {
            for (k, x) in b {
                c.blobs.insert(k.clone(), unhex(x.as_str()?));
            }
        }
        if let Some(ops) = v.get("ops").and_then(|x| x.as_array()) {
            for o in ops {
                let arr = o.as_array()?;
                let k = intern(arr.first()?.as_str()?);
                let a: Vec<i64> = arr[1..].iter().map(|x| x.as_i64().unwrap_or(0)).collect();
                c.ops.push(Op { k, a });
            }
        }
        Some(c)
    }

    /// Short human-readable rendering for evidence samples
    pub fn summary(&self, max_ops: usize) -> Value {
        let mut v = self.to_json();
        if let Some(ops) = v.get_mut("ops").and_then(|x| x.as_array_mut()) {
            if ops.len() > max_ops {
                let n = ops.len();
                ops.truncate(max_ops);
                ops.push(json!(format!("... {} more ops", n - max_ops)));
            }
        }
        if let Some(b) = v.get_mut("blobs").and_then(|x| x.as_object_mut()) {
            for (_, x) in b.iter_mut() {
                if let Some(s) = x.as_str() {
                    if s.len() > 128 {
                        *x = json!(format!("{}... ({} bytes)", &s[..128], s.len() / 2));
                    }
                }
            }
        }
        v
    }
}
