//! Batch driver: shards run indices over worker subprocesses, merges results in
//! index order, minimises failures, writes replay files and evidence.

use crate::case::Case;
use crate::cov::Cov;
use crate::prng::{run_seed, Rng};
use crate::scenario::{self, Ctx, Scenario, Violation};
use crate::shrink::Shrinker;
use serde_json::{json, Value};
use std::collections::BTreeMap;
use std::io::Write;
use std::path::{Path, PathBuf};
use std::process::{Command, Stdio};
use std::sync::atomic::{AtomicU64, Ordering};
use std::sync::Mutex;
use std::time::Instant;

pub fn root() -> PathBuf {
    PathBuf::from(std::env::var("VERIF_ROOT").unwrap_or_else(|_| "/verif".to_string()))
}

pub fn work_dir() -> PathBuf {
    // workers share the driver's scratch directory (removed by the driver at the end)
    if let Ok(d) = std::env::var("GBSIM_WORK") {
        let d = PathBuf::from(d);
        let _ = std::fs::create_dir_all(&d);
        return d;
    }
    let d = root().join("work").join(format!("{}", std::process::id()));
    std::fs::create_dir_all(&d).expect("create work dir");
    d
}

pub fn cleanup_work() {
    let _ = std::fs::remove_dir_all(root().join("work").join(format!("{}", std::process::id())));
}

pub fn base_seed() -> u64 {
    std::env::var("VERIF_SEED").ok().and_then(|s| s.parse::<u64>().ok()).unwrap_or(1)
}

pub fn gen_case(sc: &dyn Scenario, seed: u64, index: u64, thorough: bool) -> Case {
    let rs = run_seed(seed, sc.name(), index);
    let mut rng = Rng::new(rs);
    let mut case = Case::new(sc.name(), rs, index);
    sc.generate(&mut rng, index, thorough, &mut case);
    case
}

// ---------------------------------------------------------------- panic capture

thread_local! {
    static LAST_PANIC: std::cell::RefCell<String> = std::cell::RefCell::new(String::new());
}

static PANIC_LOG_FD: std::sync::atomic::AtomicI32 = std::sync::atomic::AtomicI32::new(-1);

/// panics are also appended to this fd as "P <message>" lines, so that the driver can classify a
/// worker death that follows a panic in a function that cannot unwind
pub fn set_panic_log(file: &std::fs::File) {
    use std::os::unix::io::AsRawFd;
    PANIC_LOG_FD.store(file.as_raw_fd(), Ordering::SeqCst);
}

pub fn install_panic_hook() {
    std::panic::set_hook(Box::new(|info| {
        let loc = info.location().map(|l| format!("{}:{}", l.file().rsplit("/repo/").next().unwrap_or(l.file()), l.line())).unwrap_or_default();
        let msg = if let Some(s) = info.payload().downcast_ref::<&str>() {
            s.to_string()
        } else if let Some(s) = info.payload().downcast_ref::<String>() {
            s.clone()
        } else {
            "panic".to_string()
        };
        let fd = PANIC_LOG_FD.load(Ordering::SeqCst);
        if fd >= 0 && !msg.contains("cannot unwind") {
            let line = format!("P {} @ {}\n", msg.replace('\n', " "), loc);
            unsafe { libc::write(fd, line.as_ptr() as *const _, line.len()) };
        }
        if msg.contains("cannot unwind") {
            return;
        }
        LAST_PANIC.with(|p| *p.borrow_mut() = format!("{} @ {}", msg, loc));
    }));
}

pub fn take_panic() -> String {
    LAST_PANIC.with(|p| std::mem::take(&mut *p.borrow_mut()))
}

/// Strip numbers so that panic messages form classes
pub fn panic_class(msg: &str) -> String {
    let mut out = String::new();
    let mut last_hash = false;
    for ch in msg.chars() {
        if ch.is_ascii_digit() {
            if !last_hash {
                out.push('#');
                last_hash = true;
            }
        } else {
            out.push(ch);
            last_hash = false;
        }
    }
    out.chars().take(100).collect()
}

/// Run one case in this process, catching unwinding panics that escape the scenario
pub fn run_case_here(sc: &dyn Scenario, case: &Case, focus: &str, thorough: bool, cov: &mut Cov) -> Vec<Violation> {
    let result = std::panic::catch_unwind(std::panic::AssertUnwindSafe(|| {
        let mut ctx = Ctx { cov, focus, thorough };
        sc.run(case, &mut ctx)
    }));
    match result {
        Ok(v) => v.into_iter().filter(|x| x.property == focus).collect(),
        Err(_) => {
            let msg = take_panic();
            vec![Violation::new(focus, format!("{}/unexpected-panic/{}", focus, panic_class(&msg)), msg)]
        }
    }
}

// ---------------------------------------------------------------- worker side

pub fn worker_main(args: &[String]) -> i32 {
    // worker <scenario> <focus> <seed> <tier> <start> <end> <outfile>
    let sc = match scenario::by_name(&args[0]) {
        Some(s) => s,
        None => return 2,
    };
    let focus = &args[1];
    let seed: u64 = args[2].parse().unwrap();
    let thorough = args[3] == "thorough";
    let start: u64 = args[4].parse().unwrap();
    let end: u64 = args[5].parse().unwrap();
    let mut out = std::fs::OpenOptions::new().create(true).append(true).open(&args[6]).expect("open outfile");
    set_panic_log(&out);
    crate::capture::redirect_stdout();
    install_panic_hook();
    tune_allocator();
    let mut cov = Cov::new();
    let mut buf = String::new();
    for i in start..end {
        buf.clear();
        buf.push_str(&format!("S {}\n", i));
        let _ = out.write_all(buf.as_bytes());
        // a panic in the generator is a fault of the harness, never an observation about the repository
        let case = match std::panic::catch_unwind(std::panic::AssertUnwindSafe(|| gen_case(sc, seed, i, thorough))) {
            Ok(c) => c,
            Err(_) => {
                let msg = take_panic();
                let _ = out.write_all(format!("H generator panicked at run index {}: {}\nR {}\n", i, msg, i).as_bytes());
                continue;
            }
        };
        let vs = run_case_here(sc, &case, focus, thorough, &mut cov);
        buf.clear();
        if vs.is_empty() {
            buf.push_str(&format!("R {}\n", i));
        } else {
            for v in vs {
                buf.push_str(&format!("V {} {}\n", i, json!({"property": v.property, "signature": v.signature, "detail": v.detail})));
            }
            buf.push_str(&format!("R {}\n", i));
        }
        let _ = out.write_all(buf.as_bytes());
    }
    let _ = out.write_all(format!("COV {}\nDONE\n", cov.to_line()).as_bytes());
    0
}

/// keep the allocator from mapping/unmapping per case (page-table operations are very expensive in this VM)
pub fn tune_allocator() {
    unsafe {
        libc::mallopt(libc::M_MMAP_THRESHOLD, 1 << 30);
        libc::mallopt(libc::M_TRIM_THRESHOLD, 1 << 30);
    }
}

pub fn runcase_main(args: &[String]) -> i32 {
    // runcase <casefile> <focus> <outfile>
    let text = match std::fs::read_to_string(&args[0]) {
        Ok(t) => t,
        Err(_) => return 2,
    };
    let v: Value = match serde_json::from_str(&text) {
        Ok(v) => v,
        Err(_) => return 2,
    };
    let case = match Case::from_json(v.get("case").unwrap_or(&v)) {
        Some(c) => c,
        None => return 2,
    };
    let sc = match scenario::by_name(&case.scenario) {
        Some(s) => s,
        None => return 2,
    };
    let plog = std::fs::OpenOptions::new().create(true).append(true).open(&args[2]).expect("open outfile");
    set_panic_log(&plog);
    crate::capture::redirect_stdout();
    if std::env::var("GBSIM_VERBOSE").is_err() {
        install_panic_hook();
    }
    let mut cov = Cov::new();
    let vs = run_case_here(sc, &case, &args[1], false, &mut cov);
    if std::env::var("GBSIM_VERBOSE").is_ok() {
        for v in &vs {
            eprintln!("{} : {}", v.signature, v.detail);
        }
        eprintln!("{}", cov.to_line());
    }
    let arr: Vec<Value> = vs.iter().map(|v| json!({"property": v.property, "signature": v.signature, "detail": v.detail})).collect();
    let _ = (&plog).write_all(format!("RESULT {}\nDONE\n", Value::Array(arr)).as_bytes());
    0
}

// ---------------------------------------------------------------- driver side

fn signal_name(sig: i32) -> String {
    match sig {
        4 => "SIGILL".into(),
        6 => "SIGABRT".into(),
        7 => "SIGBUS".into(),
        8 => "SIGFPE".into(),
        9 => "SIGKILL".into(),
        11 => "SIGSEGV".into(),
        5 => "SIGTRAP".into(),
        n => format!("signal{}", n),
    }
}

fn describe_exit(status: &std::process::ExitStatus) -> String {
    use std::os::unix::process::ExitStatusExt;
    if let Some(sig) = status.signal() {
        signal_name(sig)
    } else {
        format!("exit{}", status.code().unwrap_or(-1))
    }
}

static CASE_COUNTER: AtomicU64 = AtomicU64::new(0);

/// Run one explicit case in a fresh subprocess; process death becomes a violation
pub fn run_case_isolated(sc: &dyn Scenario, case: &Case, focus: &str) -> Vec<Violation> {
    let n = CASE_COUNTER.fetch_add(1, Ordering::SeqCst);
    let dir = work_dir();
    let cf = dir.join(format!("case-{}.json", n));
    let of = dir.join(format!("case-{}.out", n));
    std::fs::write(&cf, case.to_json().to_string()).expect("write case");
    let exe = std::env::current_exe().expect("current_exe");
    let status = Command::new(exe)
        .arg("runcase")
        .arg(&cf)
        .arg(focus)
        .arg(&of)
        .stdin(Stdio::null())
        .stdout(Stdio::null())
        .stderr(Stdio::null())
        .status()
        .expect("spawn runcase");
    let text = std::fs::read_to_string(&of).unwrap_or_default();
    let _ = std::fs::remove_file(&cf);
    let _ = std::fs::remove_file(&of);
    if text.ends_with("DONE\n") {
        let line = text.lines().find_map(|l| l.strip_prefix("RESULT ")).unwrap_or("[]");
        let v: Value = serde_json::from_str(line).unwrap_or(json!([]));
        return v
            .as_array()
            .map(|a| {
                a.iter()
                    .map(|x| Violation::new(x["property"].as_str().unwrap_or(""), x["signature"].as_str().unwrap_or("").to_string(), x["detail"].as_str().unwrap_or("").to_string()))
                    .collect()
            })
            .unwrap_or_default();
    }
    let last_panic = text.lines().filter_map(|l| l.strip_prefix("P ")).last().unwrap_or("").to_string();
    match sc.death_property(focus) {
        Some(p) => vec![Violation::new(p, death_signature(p, &status, &last_panic), format!("worker process died ({}) while running the case; last panic: {}", describe_exit(&status), last_panic))],
        None => vec![],
    }
}

fn death_signature(p: &str, status: &std::process::ExitStatus, last_panic: &str) -> String {
    if last_panic.is_empty() {
        format!("{}/process-death/{}", p, describe_exit(status))
    } else {
        format!("{}/process-death/{}/{}", p, describe_exit(status), panic_class(last_panic))
    }
}

pub fn run_case_any(sc: &dyn Scenario, case: &Case, focus: &str) -> Vec<Violation> {
    if sc.isolated() {
        run_case_isolated(sc, case, focus)
    } else {
        let mut cov = Cov::new();
        run_case_here(sc, case, focus, false, &mut cov)
    }
}

#[derive(Default)]
pub struct BatchResult {
    pub runs: u64,
    pub cov: Cov,
    /// (index, violation)
    pub violations: Vec<(u64, Violation)>,
    pub deaths_inconclusive: u64,
    pub harness_errors: Vec<String>,
}

struct Chunk {
    start: u64,
    end: u64,
}

fn run_chunk(sc: &dyn Scenario, focus: &str, seed: u64, tier: &str, chunk: &Chunk, slot: usize, res: &Mutex<BatchResult>) {
    let dir = work_dir();
    let exe = std::env::current_exe().expect("current_exe");
    let mut start = chunk.start;
    let mut attempt = 0;
    while start < chunk.end {
        attempt += 1;
        let of = dir.join(format!("w{}-{}-{}.out", slot, chunk.start, attempt));
        let _ = std::fs::remove_file(&of);
        let status = Command::new(&exe)
            .arg("worker")
            .arg(sc.name())
            .arg(focus)
            .arg(seed.to_string())
            .arg(tier)
            .arg(start.to_string())
            .arg(chunk.end.to_string())
            .arg(&of)
            .stdin(Stdio::null())
            .stdout(Stdio::null())
            .stderr(Stdio::null())
            .status();
        let status = match status {
            Ok(s) => s,
            Err(e) => {
                res.lock().unwrap().harness_errors.push(format!("spawn worker: {}", e));
                return;
            }
        };
        let text = std::fs::read_to_string(&of).unwrap_or_default();
        let _ = std::fs::remove_file(&of);
        let mut last_started: Option<u64> = None;
        let mut last_done: Option<u64> = None;
        let mut done = false;
        let mut last_panic = String::new();
        let mut r = res.lock().unwrap();
        for line in text.lines() {
            if let Some(rest) = line.strip_prefix("H ") {
                r.harness_errors.push(rest.to_string());
                continue;
            }
            if let Some(rest) = line.strip_prefix("P ") {
                last_panic = rest.to_string();
                continue;
            }
            if line.starts_with("S ") {
                last_panic.clear();
            }
            if let Some(rest) = line.strip_prefix("S ") {
                last_started = rest.parse().ok();
            } else if let Some(rest) = line.strip_prefix("R ") {
                last_done = rest.parse().ok();
                r.runs += 1;
            } else if let Some(rest) = line.strip_prefix("V ") {
                let mut it = rest.splitn(2, ' ');
                let idx: u64 = it.next().and_then(|x| x.parse().ok()).unwrap_or(0);
                if let Some(v) = it.next().and_then(|j| serde_json::from_str::<Value>(j).ok()) {
                    r.violations.push((
                        idx,
                        Violation::new(v["property"].as_str().unwrap_or(""), v["signature"].as_str().unwrap_or("").to_string(), v["detail"].as_str().unwrap_or("").to_string()),
                    ));
                }
            } else if let Some(rest) = line.strip_prefix("COV ") {
                if let Some(c) = Cov::from_line(rest) {
                    r.cov.merge(&c);
                }
            } else if line == "DONE" {
                done = true;
            }
        }
        if done {
            return;
        }
        // worker died: attribute to the case in flight
        match last_started {
            Some(i) if last_done != Some(i) => {
                r.runs += 1;
                r.cov.hit("worker_deaths");
                match sc.death_property(focus) {
                    Some(p) => r.violations.push((i, Violation::new(p, death_signature(p, &status, &last_panic), format!("worker died ({}) while running case index {}; last panic: {}", describe_exit(&status), i, last_panic)))),
                    None => r.deaths_inconclusive += 1,
                }
                start = i + 1;
            }
            _ => {
                r.harness_errors.push(format!("worker for {}..{} ended ({}) without protocol progress", start, chunk.end, describe_exit(&status)));
                return;
            }
        }
        if attempt > sc.chunk() + 8 {
            r.harness_errors.push("too many worker restarts in one chunk".to_string());
            return;
        }
    }
}

pub fn run_batch(sc: &'static dyn Scenario, focus: &str, seed: u64, tier: &str, from: u64, to: u64, res: &Mutex<BatchResult>) {
    let chunk = sc.chunk();
    let mut chunks = Vec::new();
    let mut s = from;
    while s < to {
        let e = (s + chunk).min(to);
        chunks.push(Chunk { start: s, end: e });
        s = e;
    }
    let next = AtomicU64::new(0);
    let workers: usize = std::env::var("VERIF_WORKERS").ok().and_then(|s| s.parse().ok()).unwrap_or(16);
    std::thread::scope(|scope| {
        for slot in 0..workers {
            let chunks = &chunks;
            let next = &next;
            scope.spawn(move || loop {
                let i = next.fetch_add(1, Ordering::SeqCst) as usize;
                if i >= chunks.len() {
                    break;
                }
                run_chunk(sc, focus, seed, tier, &chunks[i], slot, res);
            });
        }
    });
}

// ---------------------------------------------------------------- known findings

pub struct Known {
    pub property: String,
    pub signature: String,
    pub what: String,
    pub replay: String,
}

pub fn load_known() -> Vec<Known> {
    let path = root().join("known_findings.json");
    let text = match std::fs::read_to_string(path) {
        Ok(t) => t,
        Err(_) => return vec![],
    };
    let v: Value = serde_json::from_str(&text).unwrap_or(json!({}));
    v.get("findings")
        .and_then(|f| f.as_array())
        .map(|a| {
            a.iter()
                .map(|x| Known {
                    property: x["property"].as_str().unwrap_or("").to_string(),
                    signature: x["signature"].as_str().unwrap_or("").to_string(),
                    what: x["what"].as_str().unwrap_or("").to_string(),
                    replay: x["replay"].as_str().unwrap_or("").to_string(),
                })
                .collect()
        })
        .unwrap_or_default()
}

pub fn load_replay(path: &Path) -> Option<(Case, String, String)> {
    let text = std::fs::read_to_string(path).ok()?;
    let v: Value = serde_json::from_str(&text).ok()?;
    let case = Case::from_json(v.get("case")?)?;
    let prop = v.get("property")?.as_str()?.to_string();
    let sig = v.get("violation").and_then(|x| x.get("signature")).and_then(|x| x.as_str()).unwrap_or("").to_string();
    Some((case, prop, sig))
}

// ---------------------------------------------------------------- check

pub fn check_main(property: &str, tier: &str) -> i32 {
    let t0 = Instant::now();
    let thorough = tier == "thorough";
    let seed = base_seed();
    let names = scenario::plan(property);
    if names.is_empty() {
        eprintln!("no scenario decides {}", property);
        return 2;
    }
    println!("VERIF_SEED={} property={} tier={}", seed, property, tier);
    let wd = work_dir();
    std::env::set_var("GBSIM_WORK", &wd);
    let known = load_known();
    let total_secs: u64 = std::env::var("VERIF_THOROUGH_SECS").ok().and_then(|s| s.parse().ok()).unwrap_or(600);
    let mut merged = Cov::new();
    let mut total_runs = 0u64;
    let mut exit_code = 0;
    let mut violation_count = 0i64;
    let mut samples: Vec<Value> = Vec::new();
    let mut infos = Vec::new();
    let mut per_scenario = serde_json::Map::new();
    let mut harness_errors: Vec<String> = Vec::new();

    // probes for known findings of this property
    for k in known.iter().filter(|k| k.property == property) {
        let path = root().join(&k.replay);
        match load_replay(&path) {
            Some((case, _p, sig)) => {
                let sc = match scenario::by_name(&case.scenario) {
                    Some(s) => s,
                    None => continue,
                };
                let vs = run_case_any(sc, &case, property);
                if vs.iter().any(|v| v.signature == k.signature) {
                    println!("KNOWN-FINDING: property={} {} [signature {} replay {}]", property, k.what, k.signature, k.replay);
                } else {
                    println!("note: known finding '{}' (signature {}) no longer reproduces from {}", k.what, sig, k.replay);
                }
            }
            None => println!("note: known-finding replay {} missing or unreadable", k.replay),
        }
    }

    for name in &names {
        let sc = scenario::by_name(name).expect("scenario");
        let res = Mutex::new(BatchResult::default());
        let ts = Instant::now();
        if !thorough {
            let n = sc.quick_runs(property);
            let n = std::env::var("VERIF_RUNS").ok().and_then(|s| s.parse().ok()).unwrap_or(n);
            run_batch(sc, property, seed, tier, 0, n, &res);
        } else {
            let budget = total_secs / names.len() as u64;
            let wave = sc.chunk() * 16 * 2;
            let mut from = 0;
            while ts.elapsed().as_secs() < budget {
                run_batch(sc, property, seed, tier, from, from + wave, &res);
                from += wave;
                if !res.lock().unwrap().harness_errors.is_empty() {
                    break;
                }
                if res.lock().unwrap().violations.len() > 200 {
                    break;
                }
            }
        }
        let mut r = res.into_inner().unwrap();
        let secs = ts.elapsed().as_secs_f64();
        harness_errors.extend(r.harness_errors.drain(..));
        r.violations.sort_by(|a, b| a.0.cmp(&b.0).then(a.1.signature.cmp(&b.1.signature)));
        total_runs += r.runs;
        println!(
            "scenario {}: {} runs in {:.1}s ({:.0} runs/hour), {} raw violation report(s), {} inconclusive worker death(s)",
            name,
            r.runs,
            secs,
            r.runs as f64 / secs.max(0.001) * 3600.0,
            r.violations.len(),
            r.deaths_inconclusive
        );
        per_scenario.insert(
            name.to_string(),
            json!({"runs": r.runs, "wall_s": secs, "runs_per_hour": (r.runs as f64 / secs.max(0.001) * 3600.0) as u64,
                   "raw_violation_reports": r.violations.len(), "inconclusive_worker_deaths": r.deaths_inconclusive}),
        );
        // samples: first, and two later ones
        for idx in [0u64, 1, r.runs / 2] {
            if idx < r.runs.max(1) {
                samples.push(gen_case(sc, seed, idx, thorough).summary(24));
            }
        }
        infos.push(sc.info());
        merged.merge(&r.cov);

        // group by signature, minimise the first of each group
        let mut groups: BTreeMap<String, Vec<(u64, Violation)>> = BTreeMap::new();
        for (i, v) in r.violations {
            groups.entry(v.signature.clone()).or_default().push((i, v));
        }
        let mut handled = 0;
        let max_min: usize = std::env::var("VERIF_MAX_MINIMISE").ok().and_then(|s| s.parse().ok()).unwrap_or(8);
        for (sig, list) in groups.iter() {
            println!("  signature {} : {} case(s), first index {}", sig, list.len(), list[0].0);
        }
        for (sig, list) in groups {
            let (idx, v) = &list[0];
            if handled >= max_min {
                println!("note: further violation signature {} ({} case(s)) not minimised (cap reached)", sig, list.len());
                violation_count += 1;
                exit_code = 1;
                continue;
            }
            handled += 1;
            let case = gen_case(sc, seed, *idx, thorough);
            // confirm in isolation first
            let confirm = run_case_any(sc, &case, property);
            if !confirm.iter().any(|x| x.signature == sig) {
                harness_errors.push(format!("violation {} at index {} did not reproduce from its regenerated case (nondeterminism in the harness?) detail: {}", sig, idx, v.detail));
                continue;
            }
            let mut test = |c: &Case| run_case_any(sc, c, property).iter().any(|x| x.signature == sig);
            let mut sh = Shrinker::new(&mut test, if sc.isolated() { 600 } else { 3000 }, 40);
            let small = sh.shrink(&case, &|c| sc.shrink_hints(c));
            let shrink_runs = sh.runs;
            // replay twice in fresh runs
            let a = run_case_any(sc, &small, property);
            let b = run_case_any(sc, &small, property);
            let va = a.iter().find(|x| x.signature == sig);
            let vb = b.iter().find(|x| x.signature == sig);
            let (small, detail) = match (va, vb) {
                (Some(x), Some(y)) if x.detail == y.detail => (small, x.detail.clone()),
                _ => {
                    harness_errors.push(format!("minimised case for {} does not replay identically; reporting the unminimised case", sig));
                    (case.clone(), v.detail.clone())
                }
            };
            // known finding?
            if let Some(k) = known.iter().find(|k| k.property == property && k.signature == sig) {
                println!("KNOWN-FINDING: property={} {} [signature {} also hit by search: {} case(s), first index {}]", property, k.what, sig, list.len(), idx);
                continue;
            }
            let rdir = root().join("replays");
            let _ = std::fs::create_dir_all(&rdir);
            let fname = format!("{}-{}-{}-{:08x}.json", property, seed, idx, crate::prng::hash_bytes(sig.as_bytes()) as u32);
            let path = rdir.join(&fname);
            let doc = json!({
                "property": property, "scenario": name, "verif_seed": seed, "run_index": idx, "tier": tier,
                "violation": {"signature": sig, "detail": detail, "cases_with_this_signature": list.len()},
                "minimisation": {"original_ops": case.ops.len(), "minimised_ops": small.ops.len(), "candidate_runs": shrink_runs},
                "case": small.to_json(),
            });
            std::fs::write(&path, serde_json::to_string_pretty(&doc).unwrap()).expect("write replay");
            println!("  {} : {}", sig, detail);
            println!("VIOLATION property={} replay={}", property, path.display());
            violation_count += 1;
            exit_code = 1;
        }
    }

    if !harness_errors.is_empty() {
        for e in &harness_errors {
            eprintln!("HARNESS-ERROR: {}", e);
            println!("HARNESS-ERROR: {}", e);
        }
        if exit_code == 0 {
            exit_code = 2;
        }
    }

    // evidence
    let wall = t0.elapsed().as_secs_f64();
    let mut faults = serde_json::Map::new();
    let mut probes = serde_json::Map::new();
    let mut other = serde_json::Map::new();
    for (k, v) in &merged.counters {
        if let Some(r) = k.strip_prefix("fault.") {
            faults.insert(r.to_string(), json!(v));
        } else if let Some(r) = k.strip_prefix("probe.") {
            probes.insert(r.to_string(), json!(v));
        } else {
            other.insert(k.clone(), json!(v));
        }
    }
    let rule: Vec<&str> = infos.iter().map(|i| i.rule).collect();
    let mut assumptions: Vec<String> = Vec::new();
    let mut real: Vec<&str> = Vec::new();
    let mut stub: Vec<&str> = Vec::new();
    let mut kinds: Vec<&str> = Vec::new();
    for i in &infos {
        assumptions.extend(i.assumptions.iter().map(|s| s.to_string()));
        real.extend(i.components_real);
        stub.extend(i.components_stub);
        kinds.extend(i.fault_kinds);
    }
    assumptions.push("seeded search, not enumeration: a clean batch is evidence, not proof".to_string());
    let sim_clocks = merged.count("sim_clocks");
    let evidence = json!({
        "property_id": property,
        "tier": tier,
        "seed": seed,
        "level": scenario::level_of(property),
        "coverage": {
            "evaluations": total_runs,
            "distinct_nontrivial": merged.set_len("distinct"),
            "rule": rule.join(" || "),
            "samples": samples,
            "exhaustive": false,
            "scenarios": per_scenario,
            "runs_per_hour": (total_runs as f64 / wall.max(0.001) * 3600.0) as u64,
            "simulated_clocks": sim_clocks,
            "simulated_seconds": sim_clocks as f64 / 4194304.0,
            "fault_kinds_available": kinds,
            "faults_fired": faults,
            "probes": probes,
            "counters": other,
            "reach_sets": merged.set_sizes_json(),
            "components_real": real,
            "components_stub": stub,
        },
        "assumptions": assumptions,
        "wall_s": wall,
        "violations": violation_count,
    });
    let edir = root().join("evidence");
    let _ = std::fs::create_dir_all(&edir);
    std::fs::write(edir.join(format!("{}.json", property)), serde_json::to_string_pretty(&evidence).unwrap()).expect("write evidence");
    println!("{}: {} runs, {} distinct non-trivial, {} violation(s), {:.1}s", property, total_runs, merged.set_len("distinct"), violation_count, wall);
    cleanup_work();
    exit_code
}

pub fn replay_main(path: &str) -> i32 {
    let (case, prop, sig) = match load_replay(Path::new(path)) {
        Some(x) => x,
        None => {
            eprintln!("cannot read replay file {}", path);
            return 2;
        }
    };
    let sc = match scenario::by_name(&case.scenario) {
        Some(s) => s,
        None => return 2,
    };
    let vs = run_case_any(sc, &case, &prop);
    cleanup_work();
    if vs.is_empty() {
        println!("replay {}: no violation (recorded signature {})", path, sig);
        return 0;
    }
    for v in &vs {
        println!("  {} : {}", v.signature, v.detail);
    }
    println!("VIOLATION property={} replay={}", prop, path);
    1
}

/// Determinism self-test: every run index twice, in separate processes and at two worker counts;
/// compares violation lists and coverage.
pub fn selftest_determinism(name: &str, focus: &str, n: u64) -> i32 {
    let sc = match scenario::by_name(name) {
        Some(s) => s,
        None => return 2,
    };
    let seed = base_seed();
    let mut outs = Vec::new();
    for workers in ["1", "4", "16"] {
        std::env::set_var("VERIF_WORKERS", workers);
        let res = Mutex::new(BatchResult::default());
        run_batch(sc, focus, seed, "quick", 0, n, &res);
        let mut r = res.into_inner().unwrap();
        r.violations.sort_by(|a, b| a.0.cmp(&b.0).then(a.1.signature.cmp(&b.1.signature)));
        let vs: Vec<String> = r.violations.iter().map(|(i, v)| format!("{} {} {}", i, v.signature, v.detail)).collect();
        outs.push((r.runs, r.cov.to_line(), vs, r.harness_errors.len()));
    }
    cleanup_work();
    let ok = outs.iter().all(|o| o.0 == outs[0].0 && o.1 == outs[0].1 && o.2 == outs[0].2 && o.3 == 0);
    println!("determinism {} focus {}: {} runs x3 worker counts: {}", name, focus, outs[0].0, if ok { "IDENTICAL" } else { "DIVERGED" });
    if !ok {
        for o in &outs {
            println!("  runs={} cov_hash={:x} violations={} harness_errors={}", o.0, crate::prng::hash_bytes(o.1.as_bytes()), o.2.len(), o.3);
        }
        return 1;
    }
    0
}
