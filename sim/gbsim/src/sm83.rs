//! Independent SM83 encoding table used by the generators (lengths, which
//! encodings are undefined, which end a block). Not derived from /repo.

use crate::prng::Rng;

pub const UNDEFINED: [u8; 11] = [0xd3, 0xdb, 0xdd, 0xe3, 0xe4, 0xeb, 0xec, 0xed, 0xf4, 0xfc, 0xfd];

pub fn is_undefined(op: u8) -> bool {
    UNDEFINED.contains(&op)
}

pub fn len(op: u8) -> usize {
    match op {
        0x01 | 0x11 | 0x21 | 0x31 | 0x08 | 0xc2 | 0xc3 | 0xca | 0xd2 | 0xda | 0xc4 | 0xcc | 0xcd | 0xd4 | 0xdc | 0xea | 0xfa => 3,
        0x06 | 0x0e | 0x16 | 0x1e | 0x26 | 0x2e | 0x36 | 0x3e | 0x10 | 0x18 | 0x20 | 0x28 | 0x30 | 0x38 | 0xc6 | 0xce | 0xd6 | 0xde | 0xe6 | 0xee | 0xf6
        | 0xfe | 0xe0 | 0xf0 | 0xe8 | 0xf8 | 0xcb => 2,
        _ => 1,
    }
}

/// instructions that end a basic block
pub fn is_terminator(op: u8) -> bool {
    matches!(
        op,
        0xc3 | 0xc2 | 0xca | 0xd2 | 0xda | 0xe9 | 0x18 | 0x20 | 0x28 | 0x30 | 0x38 | 0xcd | 0xc4 | 0xcc | 0xd4 | 0xdc | 0xc7 | 0xcf | 0xd7 | 0xdf | 0xe7
            | 0xef | 0xf7 | 0xff | 0xc9 | 0xc0 | 0xc8 | 0xd0 | 0xd8 | 0xd9 | 0xfb | 0xf3 | 0x10 | 0x76
    )
}

pub const TERMINATORS: [u8; 34] = [
    0xc3, 0xc2, 0xca, 0xd2, 0xda, 0xe9, 0x18, 0x20, 0x28, 0x30, 0x38, 0xcd, 0xc4, 0xcc, 0xd4, 0xdc, 0xc7, 0xcf, 0xd7, 0xdf, 0xe7, 0xef, 0xf7, 0xff, 0xc9,
    0xc0, 0xc8, 0xd0, 0xd8, 0xd9, 0xfb, 0xf3, 0x10, 0x76,
];

/// terminator kind index for coverage (JP, JPcc, JPHL, JR, JRcc, CALL, CALLcc, RST, RET, RETcc, RETI, EI, DI, STOP, HALT)
pub fn terminator_kind(op: u8) -> u8 {
    match op {
        0xc3 => 0,
        0xc2 | 0xca | 0xd2 | 0xda => 1,
        0xe9 => 2,
        0x18 => 3,
        0x20 | 0x28 | 0x30 | 0x38 => 4,
        0xcd => 5,
        0xc4 | 0xcc | 0xd4 | 0xdc => 6,
        0xc7 | 0xcf | 0xd7 | 0xdf | 0xe7 | 0xef | 0xf7 | 0xff => 7,
        0xc9 => 8,
        0xc0 | 0xc8 | 0xd0 | 0xd8 => 9,
        0xd9 => 10,
        0xfb => 11,
        0xf3 => 12,
        0x10 => 13,
        0x76 => 14,
        _ => 15,
    }
}

/// the 500 focus encodings: 244 unprefixed (defined, not the CB prefix itself) then 256 CB
pub fn focus_encoding(i: u64) -> (bool, u8) {
    let i = (i % 500) as usize;
    if i < 244 {
        let mut n = 0;
        for op in 0..=255u8 {
            if is_undefined(op) || op == 0xcb {
                continue;
            }
            if n == i {
                return (false, op);
            }
            n += 1;
        }
        (false, 0)
    } else {
        (true, (i - 244) as u8)
    }
}

pub const POINTERS: [u16; 74] = [
    0x0000, 0x0001, 0x00ff, 0x0100, 0x1fff, 0x2000, 0x3ffe, 0x3fff, 0x4000, 0x4001, 0x5fff, 0x6000, 0x7ffe, 0x7fff, 0x8000, 0x8001, 0x97ff, 0x9800, 0x9ffe,
    0x9fff, 0xa000, 0xa001, 0xbffe, 0xbfff, 0xc000, 0xc001, 0xcffe, 0xcfff, 0xd000, 0xd001, 0xdffe, 0xdfff, 0xe000, 0xe001, 0xfdfe, 0xfdff, 0xfe00,
    0xfe01, 0xfe9e, 0xfe9f, 0xfea0, 0xfea1, 0xfefe, 0xfeff, 0xff00, 0xff01, 0xff02, 0xff03, 0xff04, 0xff05, 0xff06, 0xff07, 0xff0f, 0xff10, 0xff40,
    0xff41, 0xff42, 0xff43, 0xff44, 0xff45, 0xff46, 0xff47, 0xff48, 0xff4a, 0xff4b, 0xff7f, 0xff80, 0xff81, 0xfffd, 0xfffe, 0xffff, 0xc100, 0xd800, 0xff90,
];

/// pointer from the boundary list, or a uniformly drawn address, or a RAM address
pub fn pointer(rng: &mut Rng, avoid_rom_regs: bool) -> u16 {
    for _ in 0..8 {
        let p = match rng.below(10) {
            0..=4 => rng.pick(&POINTERS),
            5 | 6 => 0xc000 + (rng.below(0x2000) as u16),
            7 => 0xff80 + rng.below(0x7f) as u16,
            8 => 0x8000 + rng.below(0x4000) as u16,
            _ => rng.word(),
        };
        if avoid_rom_regs && p < 0x8000 {
            continue;
        }
        return p;
    }
    0xc000
}

/// one random defined, non-terminating instruction (bytes)
pub fn body_instruction(rng: &mut Rng, avoid_rom_regs: bool) -> Vec<u8> {
    loop {
        if rng.chance(1, 4) {
            return vec![0xcb, rng.byte()];
        }
        let op = rng.byte();
        if is_undefined(op) || is_terminator(op) || op == 0xcb {
            continue;
        }
        return encode(op, rng, avoid_rom_regs);
    }
}

/// opcode + drawn operands
pub fn encode(op: u8, rng: &mut Rng, avoid_rom_regs: bool) -> Vec<u8> {
    match len(op) {
        1 => vec![op],
        2 => {
            let imm = match op {
                0xe0 | 0xf0 => {
                    if rng.chance(2, 3) {
                        rng.pick(&[0x00u8, 0x01, 0x02, 0x04, 0x05, 0x06, 0x07, 0x0f, 0x40, 0x41, 0x42, 0x43, 0x44, 0x45, 0x46, 0x47, 0x48, 0x49, 0x4a, 0x4b, 0x80, 0xfe, 0xff, 0x7f])
                    } else {
                        rng.byte()
                    }
                }
                0x10 => {
                    if rng.chance(3, 4) {
                        0
                    } else {
                        rng.byte()
                    }
                }
                _ => rng.byte_b(),
            };
            vec![op, imm]
        }
        _ => {
            let w = match op {
                0x08 | 0xea | 0xfa => pointer(rng, avoid_rom_regs),
                _ => {
                    if rng.chance(1, 2) {
                        pointer(rng, false)
                    } else {
                        rng.word()
                    }
                }
            };
            vec![op, w as u8, (w >> 8) as u8]
        }
    }
}

/// One "safe" non-terminating instruction: never modifies H, L or SP, never writes through BC/DE, and
/// writes memory only at (HL) (callers keep HL in work RAM), at a drawn work-RAM address in 0xC000-0xC7FF or in high RAM
/// 0xFF80-0xFFBF (so routines kept above those ranges are never overwritten).
/// Reads may target the switchable ROM window (reveals the mapped bank).
pub fn safe_instruction(rng: &mut Rng) -> Vec<u8> {
    const DEST: [u8; 5] = [0, 1, 2, 3, 7]; // B C D E A
    match rng.below(16) {
        0 => vec![[0x06u8, 0x0e, 0x16, 0x1e, 0x3e][rng.below(5) as usize], rng.byte_b()],
        1 => vec![rng.pick(&[0x04u8, 0x05, 0x0c, 0x0d, 0x14, 0x15, 0x1c, 0x1d, 0x3c, 0x3d])],
        2 | 3 => vec![0x80 + rng.below(0x40) as u8],
        4 => {
            let d = rng.pick(&DEST);
            let s = rng.below(8) as u8;
            vec![0x40 | (d << 3) | s]
        }
        5 => {
            // LD (HL),r  (r != (HL))
            let s = rng.pick(&[0u8, 1, 2, 3, 4, 5, 7]);
            vec![0x70 | s]
        }
        6 | 7 => {
            let t = rng.pick(&[0u8, 1, 2, 3, 7, 6]);
            vec![0xcb, (rng.below(32) as u8) << 3 | t]
        }
        8 => vec![rng.pick(&[0x34u8, 0x35])],
        9 => vec![0x36, rng.byte_b()],
        10 => {
            // LD (a16),A into work RAM, or (1 in 4) the three-byte form aimed at high RAM
            let a = if rng.chance(1, 4) { 0xff80 + rng.below(0x40) as u16 } else { 0xc000 + rng.below(0x0800) as u16 };
            vec![0xea, a as u8, (a >> 8) as u8]
        }
        11 => {
            let a = if rng.chance(1, 2) { 0x4000 + rng.below(0x4000) as u16 } else { rng.pick(&[0xc000u16, 0xc100, 0x0000, 0x3fff, 0x4000, 0x7fff, 0xff80, 0xa000, 0xff04, 0xff05, 0xff44, 0xff41, 0xff0f, 0xffff, 0xff90]) };
            vec![0xfa, a as u8, (a >> 8) as u8]
        }
        12 => vec![rng.pick(&[0xe0u8, 0xf0]), 0x80 + rng.below(0x40) as u8],
        13 => vec![rng.pick(&[0x07u8, 0x0f, 0x17, 0x1f, 0x27, 0x2f, 0x37, 0x3f])],
        14 => vec![rng.pick(&[0xc6u8, 0xce, 0xd6, 0xde, 0xe6, 0xee, 0xf6, 0xfe]), rng.byte_b()],
        _ => match rng.below(4) {
            0 => {
                let w = 0x8000 | rng.word();
                vec![rng.pick(&[0x01u8, 0x11]), w as u8, (w >> 8) as u8]
            }
            1 => vec![rng.pick(&[0x03u8, 0x13, 0x0b, 0x1b])],
            _ => vec![rng.pick(&[0x0au8, 0x1a])],
        },
    }
}
