//! Delta debugging over the explicit case: drop ops, shrink arguments, drop /
//! zero blobs, reset parameters — keeping a candidate only if the same
//! violation signature persists.

use crate::case::Case;
use std::time::{Duration, Instant};

pub struct Shrinker<'a> {
    pub test: &'a mut dyn FnMut(&Case) -> bool,
    pub runs: u64,
    pub max_runs: u64,
    pub deadline: Instant,
}

impl<'a> Shrinker<'a> {
    pub fn new(test: &'a mut dyn FnMut(&Case) -> bool, max_runs: u64, secs: u64) -> Shrinker<'a> {
        Shrinker { test, runs: 0, max_runs, deadline: Instant::now() + Duration::from_secs(secs) }
    }
    fn spent(&self) -> bool {
        self.runs >= self.max_runs || Instant::now() >= self.deadline
    }
    fn try_case(&mut self, c: &Case) -> bool {
        if self.spent() {
            return false;
        }
        self.runs += 1;
        (self.test)(c)
    }

    pub fn shrink(&mut self, start: &Case, hints: &dyn Fn(&Case) -> Vec<Case>) -> Case {
        let mut best = start.clone();
        let mut progress = true;
        let mut rounds = 0;
        while progress && !self.spent() && rounds < 8 {
            rounds += 1;
            progress = false;
            // scenario hints first
            for cand in hints(&best) {
                if cand != best && self.try_case(&cand) {
                    best = cand;
                    progress = true;
                }
            }
            // 1. drop chunks of ops
            let mut chunk = (best.ops.len() + 1) / 2;
            while chunk >= 1 && !self.spent() {
                let mut i = 0;
                while i < best.ops.len() && !self.spent() {
                    let end = (i + chunk).min(best.ops.len());
                    let mut cand = best.clone();
                    cand.ops.drain(i..end);
                    if self.try_case(&cand) {
                        best = cand;
                        progress = true;
                    } else {
                        i += chunk;
                    }
                }
                if chunk == 1 {
                    break;
                }
                chunk /= 2;
            }
            // 2. shrink op arguments
            for i in 0..best.ops.len() {
                if self.spent() {
                    break;
                }
                // drop trailing args
                while best.ops[i].a.len() > 1 {
                    let mut cand = best.clone();
                    cand.ops[i].a.pop();
                    if self.try_case(&cand) {
                        best = cand;
                        progress = true;
                    } else {
                        break;
                    }
                }
                for j in 0..best.ops[i].a.len() {
                    let v = best.ops[i].a[j];
                    for nv in [0, 1, v / 2, v - 1] {
                        if nv != v && nv.abs() < v.abs() || (nv == 0 && v != 0) {
                            let mut cand = best.clone();
                            cand.ops[i].a[j] = nv;
                            if self.try_case(&cand) {
                                best = cand;
                                progress = true;
                                break;
                            }
                        }
                    }
                }
            }
            // 3. blobs: drop, truncate, zero
            let keys: Vec<String> = best.blobs.keys().cloned().collect();
            for k in keys {
                if self.spent() {
                    break;
                }
                let mut cand = best.clone();
                cand.blobs.remove(&k);
                if self.try_case(&cand) {
                    best = cand;
                    progress = true;
                    continue;
                }
                // truncate from the end
                let mut len = best.blobs[&k].len();
                let mut step = len / 2;
                while step >= 1 && !self.spent() {
                    if len > step {
                        let mut cand = best.clone();
                        cand.blobs.get_mut(&k).unwrap().truncate(len - step);
                        if self.try_case(&cand) {
                            best = cand;
                            len -= step;
                            progress = true;
                            continue;
                        }
                    }
                    step /= 2;
                }
                // zero bytes (chunks then singles)
                let n = best.blobs[&k].len();
                let mut chunk = (n + 1) / 2;
                while chunk >= 1 && !self.spent() {
                    let mut i = 0;
                    while i < n && !self.spent() {
                        let end = (i + chunk).min(n);
                        if best.blobs[&k][i..end].iter().any(|b| *b != 0) {
                            let mut cand = best.clone();
                            for b in &mut cand.blobs.get_mut(&k).unwrap()[i..end] {
                                *b = 0;
                            }
                            if self.try_case(&cand) {
                                best = cand;
                                progress = true;
                            }
                        }
                        i += chunk;
                    }
                    if chunk == 1 || n > 64 && chunk <= 4 {
                        break;
                    }
                    chunk /= 2;
                }
            }
            // 4. parameters towards 0
            let keys: Vec<String> = best.p.keys().cloned().collect();
            for k in keys {
                if self.spent() {
                    break;
                }
                let v = best.p[&k];
                if v == 0 {
                    continue;
                }
                for nv in [0, 1, v / 2] {
                    if nv != v {
                        let mut cand = best.clone();
                        cand.p.insert(k.clone(), nv);
                        if self.try_case(&cand) {
                            best = cand;
                            progress = true;
                            break;
                        }
                    }
                }
            }
        }
        best
    }
}
