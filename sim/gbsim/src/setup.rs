//! Shared replica construction from a case.

use crate::cart::{fill_pattern, image_for, Image};
use crate::case::Case;
use crate::machine::{new_machine, Machine};

pub fn fill_ram(m: &mut dyn Machine, seed: u64) {
    if seed == 0 {
        return;
    }
    let n = m.vram().len();
    m.vram().copy_from_slice(&fill_pattern(seed ^ 0x11, n));
    let n = m.cram().len();
    m.cram().copy_from_slice(&fill_pattern(seed ^ 0x22, n));
    let n = m.wram().len();
    m.wram().copy_from_slice(&fill_pattern(seed ^ 0x33, n));
    let n = m.oam().len();
    m.oam().copy_from_slice(&fill_pattern(seed ^ 0x44, n));
    let n = m.hram().len();
    m.hram().copy_from_slice(&fill_pattern(seed ^ 0x55, n));
}

/// Build `kinds.len()` replicas (true = jit crate) from the case's cartridge, with identical RAM fill
pub fn replicas(case: &Case, kinds: &[bool]) -> Result<(Image, Vec<Box<dyn Machine>>), String> {
    // host-mapping mode: recycled mappings (fast) unless the case asks for the production mmap/mprotect path
    crate::machine::set_fast_mm(case.get("hostmm") == 0);
    let img = image_for(case);
    let mut v = Vec::new();
    for &k in kinds {
        let mut m = new_machine(k, img.fd)?;
        fill_ram(m.as_mut(), case.get("ramfill") as u64);
        // the bus-trace hook's thread-local buffer is initialised here, from Rust code (see block_lockstep::sweep)
        m.trace_start();
        let _ = m.trace_take();
        v.push(m);
    }
    Ok((img, v))
}

/// file offset of a guest ROM address under a given switchable bank
pub fn rom_offset(addr: usize, bank: usize) -> usize {
    if addr < 0x4000 {
        addr
    } else {
        bank * 0x4000 + (addr & 0x3fff)
    }
}

/// RefBus initialised with the same storage contents as a freshly built replica
pub fn model_of(case: &Case, m: &mut dyn Machine) -> crate::model::bus::RefBus {
    use crate::cart::{ram_bytes, rom_banks};
    let cart_type = case.get("cart_type") as u8;
    let rom_code = case.get("rom_code") as u8;
    let ram_code = case.get("ram_code") as u8;
    let mut b = crate::model::bus::RefBus::new(m.rom().to_vec(), cart_type, rom_banks(rom_code), ram_bytes(ram_code));
    b.vram.copy_from_slice(m.vram());
    let n = b.cram.len().min(m.cram().len());
    b.cram[..n].copy_from_slice(&m.cram()[..n]);
    b.wram.copy_from_slice(m.wram());
    b.oam.copy_from_slice(m.oam());
    b.hram.copy_from_slice(m.hram());
    b
}
