//! One `Machine` = one heap-pinned `emulator::Core` of one of the two shadow
//! crates (gb_jit: feature jit on, gb_int: feature off), running the
//! repository's real code. The trait gives the scenarios a crate-independent
//! handle; the macro below instantiates it for both crates from one body.

use crate::prng::hash_bytes;
use std::fs::File;
use std::os::unix::io::FromRawFd;

#[derive(Clone, Copy, Debug, PartialEq, Eq, Default)]
pub struct Regs {
    pub af: u32,
    pub bc: u32,
    pub de: u32,
    pub hl: u32,
    pub sp: u32,
    pub ip: u32,
    pub cycles: u32,
}

pub const IME_OFF: u8 = 0;
pub const IME_ON: u8 = 1;
pub const IME_PENDING: u8 = 2;
pub const RUN: u8 = 0;
pub const HALT: u8 = 1;
pub const STOP: u8 = 2;

/// Full observable + hidden state of one replica, as named 64-bit fields.
#[derive(Clone, Debug, PartialEq)]
pub struct Snap {
    pub f: Vec<(&'static str, u64)>,
}

impl Snap {
    /// first differing field, ignoring the names in `skip`
    pub fn diff(&self, other: &Snap, skip: &[&str]) -> Option<String> {
        for (a, b) in self.f.iter().zip(other.f.iter()) {
            if a.1 != b.1 && !skip.contains(&a.0) {
                return Some(format!("{}: {:#x} vs {:#x}", a.0, a.1, b.1));
            }
        }
        None
    }
    pub fn diff_field(&self, other: &Snap, skip: &[&str]) -> Option<&'static str> {
        for (a, b) in self.f.iter().zip(other.f.iter()) {
            if a.1 != b.1 && !skip.contains(&a.0) {
                return Some(a.0);
            }
        }
        None
    }
    pub fn get(&self, name: &str) -> u64 {
        self.f.iter().find(|x| x.0 == name).map(|x| x.1).unwrap_or(0)
    }
    pub fn hash(&self) -> u64 {
        let v: Vec<u64> = self.f.iter().map(|x| x.1).collect();
        crate::prng::hash_u64s(&v)
    }
}

pub const IO_NAMES: [&str; 25] = [
    "io.P1", "io.SB", "io.SC", "io.DIV", "io.TIMA", "io.TMA", "io.TAC", "io.IF", "io.LCDC", "io.STAT", "io.SCY", "io.SCX",
    "io.LY", "io.LYC", "io.DMA", "io.BGP", "io.OBP0", "io.OBP1", "io.WY", "io.WX", "io.FF03", "io.FF10", "io.FF4D", "io.FF7F", "io.IE",
];
pub const IO_ADDRS: [u16; 25] = [
    0xff00, 0xff01, 0xff02, 0xff04, 0xff05, 0xff06, 0xff07, 0xff0f, 0xff40, 0xff41, 0xff42, 0xff43, 0xff44, 0xff45, 0xff46,
    0xff47, 0xff48, 0xff49, 0xff4a, 0xff4b, 0xff03, 0xff10, 0xff4d, 0xff7f, 0xffff,
];

pub trait Machine {
    fn kind(&self) -> &'static str;
    // ---- stepping (production step functions)
    fn run_code_block(&mut self);
    fn update(&mut self);
    fn run_interp(&mut self);
    fn run_frame(&mut self);
    fn handle_interrupt(&mut self);
    // ---- engines alone (no tail)
    fn engine_interp_block(&mut self) -> u8;
    fn engine_interp_op(&mut self) -> Option<(u8, bool)>;
    /// lookup, translate on miss, call — exactly what Core::run_code_block does with feature jit
    fn engine_jit_block(&mut self) -> u8;
    /// same as engine_jit_block, entered through `call_with_canaries`; second value: callee-saved host registers clobbered
    fn engine_jit_block_checked(&mut self) -> (u8, u64);
    fn jit_lookup(&self, ip: usize) -> bool;
    /// translate the block at ip (no lookup, no execution)
    fn jit_translate(&mut self, ip: usize) -> usize;
    fn clock(&mut self, clocks: usize);
    // ---- CPU state
    fn regs(&self) -> Regs;
    fn set_regs(&mut self, r: Regs);
    fn ime(&self) -> u8;
    fn set_ime(&mut self, v: u8);
    fn run_state(&self) -> u8;
    fn set_run_state(&mut self, v: u8);
    fn last_block_cycles(&self) -> usize;
    // ---- bus
    fn read(&mut self, addr: u16) -> u8;
    fn write(&mut self, addr: u16, v: u8);
    fn read_word(&mut self, addr: u16) -> u16;
    fn write_word(&mut self, addr: u16, v: u16);
    /// bytes of the fetch view starting at addr (at most `max`)
    fn fetch_view(&self, addr: usize, max: usize) -> Vec<u8>;
    /// what the translator would read at `addr` (cartridge ROM only, addr < 0x8000)
    fn fetch_view_translator(&self, addr: usize, max: usize) -> Vec<u8>;
    // ---- raw storage
    fn rom(&self) -> &[u8];
    fn vram(&mut self) -> &mut [u8];
    fn cram(&mut self) -> &mut [u8];
    fn wram(&mut self) -> &mut [u8];
    fn oam(&mut self) -> &mut [u8];
    fn hram(&mut self) -> &mut [u8];
    fn iflag(&self) -> u8;
    fn set_iflag(&mut self, v: u8);
    fn ie(&self) -> u8;
    fn set_ie(&mut self, v: u8);
    fn rom_bank(&self) -> usize;
    fn ram_bank(&self) -> usize;
    // ---- hidden state (H3)
    fn dma(&self) -> Option<(usize, u8)>;
    fn timer_phase(&self) -> u32;
    fn joy_pending(&self) -> bool;
    fn lcd_pos(&self) -> (u8, usize, u8);
    fn visible_frame(&self) -> &[u8];
    fn writing_frame(&self) -> &[u8];
    fn serial_latch(&self) -> u8;
    // ---- cache
    fn flush_cache(&mut self);
    fn cache_entries(&self) -> Vec<(u8, u16, u16, usize, usize, usize)>;
    fn cache_space(&self) -> usize;
    // ---- external events
    fn press(&mut self, button: u8);
    fn release(&mut self, button: u8);
    // ---- bus trace (H1) of this machine's crate
    fn trace_start(&self);
    fn trace_take(&self) -> Vec<(u8, u16, u8)>;

    fn snap(&mut self, full: bool) -> Snap {
        let r = self.regs();
        let mut f: Vec<(&'static str, u64)> = Vec::with_capacity(64);
        f.push(("af", r.af as u64));
        f.push(("bc", r.bc as u64));
        f.push(("de", r.de as u64));
        f.push(("hl", r.hl as u64));
        f.push(("sp", r.sp as u64));
        f.push(("pc", r.ip as u64));
        f.push(("cycles", r.cycles as u64));
        f.push(("ime", self.ime() as u64));
        f.push(("run_state", self.run_state() as u64));
        f.push(("last_block_cycles", self.last_block_cycles() as u64));
        for i in 0..IO_ADDRS.len() {
            let v = self.read(IO_ADDRS[i]);
            f.push((IO_NAMES[i], v as u64));
        }
        f.push(("hid.timer_phase", self.timer_phase() as u64));
        let (m, d, l) = self.lcd_pos();
        f.push(("hid.lcd_mode", m as u64));
        f.push(("hid.lcd_dots", d as u64));
        f.push(("hid.lcd_line", l as u64));
        f.push(("hid.dma", match self.dma() { None => u64::MAX, Some((s, o)) => ((s as u64) << 8) | o as u64 }));
        f.push(("hid.joy_pending", self.joy_pending() as u64));
        f.push(("hid.rom_bank", self.rom_bank() as u64));
        f.push(("hid.ram_bank", self.ram_bank() as u64));
        f.push(("hid.serial_latch", self.serial_latch() as u64));
        if full {
            f.push(("mem.vram", hash_bytes(self.vram())));
            f.push(("mem.cram", hash_bytes(self.cram())));
            f.push(("mem.wram", hash_bytes(self.wram())));
            f.push(("mem.oam", hash_bytes(self.oam())));
            f.push(("mem.hram", hash_bytes(self.hram())));
            let v = hash_bytes(self.visible_frame());
            f.push(("frame.visible", v));
            let w = hash_bytes(self.writing_frame());
            f.push(("frame.writing", w));
        }
        Snap { f }
    }
}

pub const CANARY: u64 = 0x5a5a_a5a5_1234_fedc;

/// Enter translated code exactly as CodeCache::call does (sysv64: rdi = register file, rsi = block, rdx = epilogue), but
/// with every callee-saved host register holding a canary value. Returns (status, bitmask of callee-saved registers that
/// came back changed: bit 0 rbx, 1 rbp, 2 r12, 3 r13, 4 r14, 5 r15). The stack pointer is implicitly checked by the fact
/// that the function returns and the pops restore the right values.
#[inline(never)]
pub unsafe fn call_with_canaries(func: usize, regs: usize, block: usize, epilogue: usize) -> (u8, u64) {
    let status: u64;
    let bad: u64;
    core::arch::asm!(
        "push rbx",
        "push rbp",
        "push r12",
        "push r13",
        "push r14",
        "push r15",
        "mov r10, rsp",
        "and rsp, -16",
        "push r10",
        "sub rsp, 8",
        "mov r10, {c}",
        "mov rbx, r10",
        "mov rbp, r10",
        "mov r12, r10",
        "mov r13, r10",
        "mov r14, r10",
        "mov r15, r10",
        "call rax",
        "xor ecx, ecx",
        "mov r10, {c}",
        "cmp rbx, r10",
        "je 21f",
        "or rcx, 1",
        "21:",
        "cmp rbp, r10",
        "je 22f",
        "or rcx, 2",
        "22:",
        "cmp r12, r10",
        "je 23f",
        "or rcx, 4",
        "23:",
        "cmp r13, r10",
        "je 24f",
        "or rcx, 8",
        "24:",
        "cmp r14, r10",
        "je 25f",
        "or rcx, 16",
        "25:",
        "cmp r15, r10",
        "je 26f",
        "or rcx, 32",
        "26:",
        "add rsp, 8",
        "pop rsp",
        "pop r15",
        "pop r14",
        "pop r13",
        "pop r12",
        "pop rbp",
        "pop rbx",
        c = const CANARY,
        inout("rax") func as u64 => status,
        inout("rdi") regs as u64 => _,
        inout("rsi") block as u64 => _,
        inout("rdx") epilogue as u64 => _,
        out("rcx") bad,
        out("r8") _,
        out("r9") _,
        out("r10") _,
        out("r11") _,
        clobber_abi("sysv64"),
    );
    (status as u8, bad)
}

pub fn dup_file(fd: i32) -> File {
    let d = unsafe { libc::dup(fd) };
    assert!(d >= 0, "dup failed");
    unsafe { File::from_raw_fd(d) }
}

macro_rules! impl_machine {
    ($name:ident, $krate:ident, $kind:expr) => {
        pub struct $name {
            pub core: Box<$krate::emulator::Core>,
        }

        impl $name {
            /// Build a core the production way: read_header + Core::from_rom_file on a file
            pub fn from_fd(fd: i32) -> Result<Box<dyn Machine>, String> {
                let mut file = dup_file(fd);
                let header = $krate::system::read_header(&mut file)?;
                let core = $krate::emulator::Core::from_rom_file(&mut file, header);
                Ok(Box::new($name { core: Box::new(core) }))
            }
            pub fn from_code(code: Vec<u8>) -> Box<dyn Machine> {
                let core = $krate::emulator::Core::with_code_block(code.into_boxed_slice());
                Box::new($name { core: Box::new(core) })
            }
            pub fn set_fast_mm(on: bool) {
    gb_jit::verif::set_fast_mm(on);
    gb_int::verif::set_fast_mm(on);
}

pub fn set_arena_size(size: usize) {
                $krate::verif::set_arena_size(size);
            }
        }

        impl Machine for $name {
            fn kind(&self) -> &'static str {
                $kind
            }
            fn run_code_block(&mut self) {
                self.core.run_code_block();
            }
            fn update(&mut self) {
                self.core.update();
            }
            fn run_interp(&mut self) {
                self.core.run_interp();
            }
            fn run_frame(&mut self) {
                self.core.run_frame();
            }
            fn handle_interrupt(&mut self) {
                self.core.handle_interrupt();
            }
            fn engine_interp_block(&mut self) -> u8 {
                let mem_ptr = &mut self.core.memory as *mut $krate::mem::MemoryAreas;
                $krate::interpreter::run_code_block(&mut self.core.registers, mem_ptr)
            }
            fn engine_interp_op(&mut self) -> Option<(u8, bool)> {
                let mem_ptr = &mut self.core.memory as *mut $krate::mem::MemoryAreas;
                $krate::interpreter::run_next_op(&mut self.core.registers, mem_ptr)
            }
            fn engine_jit_block(&mut self) -> u8 {
                let core = &mut *self.core;
                let ip = core.registers.ip as usize;
                core.cache.set_rom_bank(core.memory.get_rom_bank());
                let address = match core.cache.get_address_for_ip(ip) {
                    Some(a) => a,
                    None => core.cache.translate_code_block(&core.memory.rom, ip, core.memory.as_ptr()),
                };
                core.cache.call(address, &mut core.registers)
            }
            fn engine_jit_block_checked(&mut self) -> (u8, u64) {
                let core = &mut *self.core;
                let ip = core.registers.ip as usize;
                core.cache.set_rom_bank(core.memory.get_rom_bank());
                let offset = match core.cache.get_address_for_ip(ip) {
                    Some(a) => a,
                    None => core.cache.translate_code_block(&core.memory.rom, ip, core.memory.as_ptr()),
                };
                let (prologue, epilogue) = core.cache.verif_entry_points();
                let block = core.cache.get_memory_start_address() + offset;
                unsafe { call_with_canaries(prologue, &mut core.registers as *mut _ as usize, block, epilogue) }
            }
            fn jit_lookup(&self, ip: usize) -> bool {
                self.core.cache.get_address_for_ip(ip).is_some()
            }
            fn jit_translate(&mut self, ip: usize) -> usize {
                let core = &mut *self.core;
                core.cache.translate_code_block(&core.memory.rom, ip, core.memory.as_ptr())
            }
            fn clock(&mut self, clocks: usize) {
                self.core.memory.run_clock_cycles($krate::timing::ClockCycles(clocks));
            }
            fn regs(&self) -> Regs {
                let r = &self.core.registers;
                Regs { af: r.af, bc: r.bc, de: r.de, hl: r.hl, sp: r.sp, ip: r.ip, cycles: r.cycles }
            }
            fn set_regs(&mut self, v: Regs) {
                let r = &mut self.core.registers;
                r.af = v.af;
                r.bc = v.bc;
                r.de = v.de;
                r.hl = v.hl;
                r.sp = v.sp;
                r.ip = v.ip;
                r.cycles = v.cycles;
            }
            fn ime(&self) -> u8 {
                match self.core.interrupts_enabled {
                    $krate::emulator::InterruptState::Disabled => IME_OFF,
                    $krate::emulator::InterruptState::Enabled => IME_ON,
                    $krate::emulator::InterruptState::EnableNext => IME_PENDING,
                }
            }
            fn set_ime(&mut self, v: u8) {
                self.core.interrupts_enabled = match v {
                    IME_ON => $krate::emulator::InterruptState::Enabled,
                    IME_PENDING => $krate::emulator::InterruptState::EnableNext,
                    _ => $krate::emulator::InterruptState::Disabled,
                };
            }
            fn run_state(&self) -> u8 {
                match self.core.run_state {
                    $krate::emulator::RunState::Run => RUN,
                    $krate::emulator::RunState::Halt => HALT,
                    $krate::emulator::RunState::Stop => STOP,
                }
            }
            fn set_run_state(&mut self, v: u8) {
                self.core.run_state = match v {
                    HALT => $krate::emulator::RunState::Halt,
                    STOP => $krate::emulator::RunState::Stop,
                    _ => $krate::emulator::RunState::Run,
                };
            }
            fn last_block_cycles(&self) -> usize {
                self.core.last_block_cycle_length
            }
            fn read(&mut self, addr: u16) -> u8 {
                $krate::mem::memory_read_byte(&self.core.memory as *const _, addr)
            }
            fn write(&mut self, addr: u16, v: u8) {
                $krate::mem::memory_write_byte(&mut self.core.memory as *mut _, addr, v)
            }
            fn read_word(&mut self, addr: u16) -> u16 {
                $krate::mem::memory_read_word(&mut self.core.memory as *mut _, addr)
            }
            fn write_word(&mut self, addr: u16, v: u16) {
                $krate::mem::memory_write_word(&mut self.core.memory as *mut _, addr, v)
            }
            fn fetch_view(&self, addr: usize, max: usize) -> Vec<u8> {
                let s = $krate::mem::get_executable_memory_slice(addr, &self.core.memory as *const _);
                s[..s.len().min(max)].to_vec()
            }
            fn fetch_view_translator(&self, addr: usize, max: usize) -> Vec<u8> {
                let s = self.core.cache.get_executable_memory_segment(addr, &self.core.memory as *const _);
                s[..s.len().min(max)].to_vec()
            }
            fn rom(&self) -> &[u8] {
                &self.core.memory.rom
            }
            fn vram(&mut self) -> &mut [u8] {
                &mut self.core.memory.video_ram
            }
            fn cram(&mut self) -> &mut [u8] {
                &mut self.core.memory.cart_ram
            }
            fn wram(&mut self) -> &mut [u8] {
                &mut self.core.memory.work_ram
            }
            fn oam(&mut self) -> &mut [u8] {
                &mut self.core.memory.oam_ram
            }
            fn hram(&mut self) -> &mut [u8] {
                &mut self.core.memory.high_ram
            }
            fn iflag(&self) -> u8 {
                self.core.memory.io.interrupt_flag.as_u8()
            }
            fn set_iflag(&mut self, v: u8) {
                self.core.memory.io.interrupt_flag = $krate::devices::interrupts::InterruptFlag::new(v);
            }
            fn ie(&self) -> u8 {
                self.core.memory.io.interrupt_mask
            }
            fn set_ie(&mut self, v: u8) {
                self.core.memory.io.interrupt_mask = v;
            }
            fn rom_bank(&self) -> usize {
                self.core.memory.cart_state.get_rom_bank()
            }
            fn ram_bank(&self) -> usize {
                self.core.memory.cart_state.get_ram_bank()
            }
            fn dma(&self) -> Option<(usize, u8)> {
                self.core.memory.verif_dma()
            }
            fn timer_phase(&self) -> u32 {
                self.core.memory.io.timer.verif_cycle_count()
            }
            fn joy_pending(&self) -> bool {
                self.core.memory.io.joypad.verif_pending()
            }
            fn lcd_pos(&self) -> (u8, usize, u8) {
                self.core.memory.io.video.verif_position()
            }
            fn visible_frame(&self) -> &[u8] {
                self.core.memory.io.video.get_visible_buffer()
            }
            fn writing_frame(&self) -> &[u8] {
                self.core.memory.io.video.get_writing_buffer()
            }
            fn serial_latch(&self) -> u8 {
                self.core.memory.io.serial.get_data()
            }
            fn flush_cache(&mut self) {
                self.core.cache = $krate::cache::CodeCache::new();
            }
            fn cache_entries(&self) -> Vec<(u8, u16, u16, usize, usize, usize)> {
                self.core.cache.verif_entries()
            }
            fn cache_space(&self) -> usize {
                self.core.cache.verif_space_remaining()
            }
            fn press(&mut self, button: u8) {
                self.core.memory.io.joypad.press_button(button_of!($krate, button));
            }
            fn release(&mut self, button: u8) {
                self.core.memory.io.joypad.release_button(button_of!($krate, button));
            }
            fn trace_start(&self) {
                $krate::verif::trace_start();
            }
            fn trace_take(&self) -> Vec<(u8, u16, u8)> {
                $krate::verif::trace_take()
            }
        }
    };
}

macro_rules! button_of {
    ($krate:ident, $b:expr) => {
        match $b & 7 {
            0 => $krate::devices::joypad::Button::A,
            1 => $krate::devices::joypad::Button::B,
            2 => $krate::devices::joypad::Button::Select,
            3 => $krate::devices::joypad::Button::Start,
            4 => $krate::devices::joypad::Button::Right,
            5 => $krate::devices::joypad::Button::Left,
            6 => $krate::devices::joypad::Button::Up,
            _ => $krate::devices::joypad::Button::Down,
        }
    };
}

impl_machine!(JitMachine, gb_jit, "jit");
impl_machine!(IntMachine, gb_int, "int");

pub fn new_machine(jit: bool, fd: i32) -> Result<Box<dyn Machine>, String> {
    if jit {
        JitMachine::from_fd(fd)
    } else {
        IntMachine::from_fd(fd)
    }
}

pub fn set_fast_mm(on: bool) {
    gb_jit::verif::set_fast_mm(on);
    gb_int::verif::set_fast_mm(on);
}

pub fn set_arena_size(size: usize) {
    JitMachine::set_arena_size(size);
    IntMachine::set_arena_size(size);
}
