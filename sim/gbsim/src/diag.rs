//! Diagnostics used while triaging (not a check): per-encoding cycle table of both engines.

use crate::cart::patch_key;
use crate::case::Case;
use crate::machine::Regs;
use crate::setup::replicas;
use crate::sm83;

pub fn cycles_table() -> i32 {
    crate::capture::redirect_stdout();
    crate::driver::install_panic_hook();
    let mut lines = Vec::new();
    for idx in 0..500u64 {
        let (cb, op) = sm83::focus_encoding(idx);
        let mut rows: Vec<(u8, i64, i64)> = Vec::new();
        for f in 0..16u32 {
            let mut case = Case::new("diag", 0, 0);
            case.set("cart_type", 0);
            case.set("rom_code", 0);
            case.set("ram_code", 3);
            let mut code = if cb { vec![0xcb, op] } else { vec![op] };
            while code.len() < if cb { 2 } else { sm83::len(op) } {
                code.push(if sm83::len(op) == 2 { 0x05 } else if code.len() == 1 { 0x00 } else { 0xc1 });
            }
            code.push(0x76);
            case.blobs.insert(patch_key(0x150), code);
            let (_img, mut reps) = replicas(&case, &[true, true]).unwrap();
            let (a, b) = reps.split_at_mut(1);
            let r = Regs { af: 0x1200 | (f << 4), bc: 0xc010, de: 0xc020, hl: 0xc030, sp: 0xd000, ip: 0x150, cycles: 0 };
            a[0].set_regs(r);
            b[0].set_regs(r);
            let rj = std::panic::catch_unwind(std::panic::AssertUnwindSafe(|| a[0].engine_jit_block()));
            let ri = std::panic::catch_unwind(std::panic::AssertUnwindSafe(|| b[0].engine_interp_block()));
            if rj.is_err() || ri.is_err() {
                continue;
            }
            if f == 0 {
                let e = a[0].cache_entries();
                if let Some(x) = e.iter().find(|x| x.2 == 0x150) {
                    eprintln!("SIZE {}{:02x} {}", if cb { "cb" } else { "" }, op, x.5);
                }
            }
            let cj = a[0].regs().cycles as i64;
            let ci = b[0].regs().cycles as i64;
            if cj != ci {
                rows.push((f as u8, cj, ci));
            }
        }
        if !rows.is_empty() {
            let all_same = rows.len() == 16 && rows.iter().all(|r| r.1 == rows[0].1 && r.2 == rows[0].2);
            if all_same {
                lines.push(format!("{}{:02x}: jit {} interp {} (all flags)", if cb { "cb " } else { "" }, op, rows[0].1, rows[0].2));
            } else {
                let s: Vec<String> = rows.iter().map(|r| format!("F={:x}0:{}v{}", r.0, r.1, r.2)).collect();
                lines.push(format!("{}{:02x}: {}", if cb { "cb " } else { "" }, op, s.join(" ")));
            }
        }
    }
    for l in &lines {
        eprintln!("{}", l);
    }
    eprintln!("{} encodings with cycle differences (block = op + HALT; HALT's own cycle included on both sides)", lines.len());
    0
}

/// per-step trace of the three C03 replicas for a case file (triage aid)
pub fn trace_c03(path: &str) -> i32 {
    use crate::machine::RUN;
    crate::capture::redirect_stdout();
    crate::driver::install_panic_hook();
    let text = std::fs::read_to_string(path).unwrap();
    let v: serde_json::Value = serde_json::from_str(&text).unwrap();
    let case = Case::from_json(v.get("case").unwrap_or(&v)).unwrap();
    let (_img, mut reps) = replicas(&case, &[true, true, false]).unwrap();
    for m in reps.iter_mut() {
        let w = m.wram();
        for i in (0x1f00..0x2000).step_by(2) {
            w[i] = 0x50;
            w[i + 1] = 0x01;
        }
        for i in 0..0x200 {
            w[i] = 0;
        }
        m.set_regs(Regs { af: 0x0100, bc: 0x8013, de: 0x80d8, hl: 0xc100, sp: 0xdff0, ip: 0x150, cycles: 0 });
        m.set_ime(case.get("ime") as u8);
    }
    let mut n = 0;
    for op in case.ops.iter() {
        match op.k {
            "w" | "b" => {
                for m in reps.iter_mut() {
                    m.write(op.arg(0) as u16, op.arg(1) as u8);
                }
            }
            "t" | "g" => {
                let pc = if op.k == "t" { 0x200 + op.arg(0) as u32 * 0x20 } else { (op.arg(0) & 0x7fff) as u32 };
                for m in reps.iter_mut() {
                    let mut r = m.regs();
                    r.ip = pc;
                    m.set_regs(r);
                    m.set_run_state(RUN);
                }
            }
            "f" => reps[0].flush_cache(),
            "q" => {
                for m in reps.iter_mut() {
                    let f = m.iflag();
                    m.set_iflag(f | (op.arg(0) & 0x1f) as u8);
                }
            }
            "j" => {
                for m in reps.iter_mut() {
                    if op.arg(1) != 0 {
                        m.press(op.arg(0) as u8)
                    } else {
                        m.release(op.arg(0) as u8)
                    }
                }
            }
            "s" => {
                for _ in 0..op.arg(0) {
                    n += 1;
                    reps[1].flush_cache();
                    let mut line = format!("step {:3}", n);
                    for m in reps.iter_mut() {
                        let pre = m.regs();
                        let bank = m.rom_bank();
                        let rs = m.run_state();
                        let r = std::panic::catch_unwind(std::panic::AssertUnwindSafe(|| {
                            if m.run_state() == RUN {
                                m.run_code_block()
                            } else {
                                m.update()
                            }
                        }));
                        let post = m.regs();
                        line.push_str(&format!(" | {} pc {:04x}(b{} rs{}) -> {:04x} af {:04x} sp {:04x} cyc {} ime {} if {:02x}{}", m.kind(), pre.ip, bank, rs, post.ip, post.af, post.sp, m.last_block_cycles(), m.ime(), m.iflag(), if r.is_err() { " PANIC" } else { "" }));
                    }
                    eprintln!("{}", line);
                }
            }
            _ => {}
        }
    }
    0
}
