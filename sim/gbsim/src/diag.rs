//! Diagnostics used while triaging (not a check): per-encoding cycle table of both engines.

use crate::cart::patch_key;
use crate::case::Case;
use crate::machine::Regs;
use crate::setup::replicas;
use crate::sm83;

pub fn cycles_table() -> i32 {
    crate::capture::redirect_stdout();
    crate::driver::install_panic_hook();
    let mut lines = Vec::new();
    for idx in 0..500u64 {
        let (cb, op) = sm83::focus_encoding(idx);
        let mut rows: Vec<(u8, i64, i64)> = Vec::new();
        for f in 0..16u32 {
            let mut case = Case::new("diag", 0, 0);
            case.set("cart_type", 0);
            case.set("rom_code", 0);
            case.set("ram_code", 3);
            let mut code = if cb { vec![0xcb, op] } else { vec![op] };
            while code.len() < if cb { 2 } else { sm83::len(op) } {
                code.push(if sm83::len(op) == 2 { 0x05 } else if code.len() == 1 { 0x00 } else { 0xc1 });
            }
            code.push(0x76);
            case.blobs.insert(patch_key(0x150), code);
            let (_img, mut reps) = replicas(&case, &[true, true]).unwrap();
            let (a, b) = reps.split_at_mut(1);
            let r = Regs { af: 0x1200 | (f << 4), bc: 0xc010, de: 0xc020, hl: 0xc030, sp: 0xd000, ip: 0x150, cycles: 0 };
            a[0].set_regs(r);
            b[0].set_regs(r);
            let rj = std::panic::catch_unwind(std::panic::AssertUnwindSafe(|| a[0].engine_jit_block()));
            let ri = std::panic::catch_unwind(std::panic::AssertUnwindSafe(|| b[0].engine_interp_block()));
            if rj.is_err() || ri.is_err() {
                continue;
            }
            if f == 0 {
                let e = a[0].cache_entries();
                if let Some(x) = e.iter().find(|x| x.2 == 0x150) {
                    eprintln!("SIZE {}{:02x} {}", if cb { "cb" } else { "" }, op, x.5);
                }
            }
            let cj = a[0].regs().cycles as i64;
            let ci = b[0].regs().cycles as i64;
            if cj != ci {
                rows.push((f as u8, cj, ci));
            }
        }
        if !rows.is_empty() {
            let all_same = rows.len() == 16 && rows.iter().all(|r| r.1 == rows[0].1 && r.2 == rows[0].2);
            if all_same {
                lines.push(format!("{}{:02x}: jit {} interp {} (all flags)", if cb { "cb " } else { "" }, op, rows[0].1, rows[0].2));
            } else {
                let s: Vec<String> = rows.iter().map(|r| format!("F={:x}0:{}v{}", r.0, r.1, r.2)).collect();
                lines.push(format!("{}{:02x}: {}", if cb { "cb " } else { "" }, op, s.join(" ")));
            }
        }
    }
    for l in &lines {
        eprintln!("{}", l);
    }
    eprintln!("{} encodings with cycle differences (block = op + HALT; HALT's own cycle included on both sides)", lines.len());
    0
}
