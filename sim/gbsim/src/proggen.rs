//! Structured multi-block guest programs (C04, C09, C18): a tiny label-based
//! assembler and a grammar of statements — counted loops, CALL/RET nests, RST,
//! JP HL tables, interrupt handlers, timer/LCD set-up, HALT waits, DI/EI
//! sections, OAM DMA from high RAM, routines copied to work/high RAM, far calls
//! into switchable banks, serial output.

use crate::cart::{patch_key, rom_banks};
use crate::case::Case;
use crate::prng::Rng;
use crate::setup::rom_offset;
use crate::sm83::safe_instruction;
use std::collections::BTreeMap;

pub struct Asm {
    pub base: u16,
    pub code: Vec<u8>,
    labels: BTreeMap<String, u16>,
    fix16: Vec<(usize, String)>,
    fix8: Vec<(usize, String)>,
}

impl Asm {
    pub fn new(base: u16) -> Asm {
        Asm { base, code: Vec::new(), labels: BTreeMap::new(), fix16: Vec::new(), fix8: Vec::new() }
    }
    pub fn here(&self) -> u16 {
        self.base + self.code.len() as u16
    }
    pub fn emit(&mut self, b: &[u8]) {
        self.code.extend_from_slice(b);
    }
    pub fn label(&mut self, name: &str) {
        let h = self.here();
        self.labels.insert(name.to_string(), h);
    }
    pub fn set_label(&mut self, name: &str, addr: u16) {
        self.labels.insert(name.to_string(), addr);
    }
    /// opcode followed by the 16-bit address of a label
    pub fn op16(&mut self, op: u8, label: &str) {
        self.code.push(op);
        self.fix16.push((self.code.len(), label.to_string()));
        self.code.extend([0, 0]);
    }
    /// relative jump opcode to a label
    pub fn jr(&mut self, op: u8, label: &str) {
        self.code.push(op);
        self.fix8.push((self.code.len(), label.to_string()));
        self.code.push(0);
    }
    pub fn finish(mut self) -> Vec<u8> {
        for (at, l) in &self.fix16 {
            let a = *self.labels.get(l).unwrap_or(&0x0150);
            self.code[*at] = a as u8;
            self.code[*at + 1] = (a >> 8) as u8;
        }
        for (at, l) in &self.fix8 {
            let a = *self.labels.get(l).unwrap_or(&self.base) as i32;
            let from = self.base as i32 + *at as i32 + 1;
            let d = (a - from).clamp(-128, 127);
            self.code[*at] = d as i8 as u8;
        }
        self.code
    }
}

pub struct Profile {
    pub banked: bool,
    pub timer: bool,
    pub stat: bool,
    pub vblank: bool,
    pub halts: bool,
    pub dma: bool,
    pub ram_code: bool,
    pub serial: bool,
    pub div_writes: bool,
    pub stack_in_hram: bool,
    pub statements: usize,
}

pub const HRAM_DMA: u16 = 0xffc0;
pub const HRAM_ROUTINE: u16 = 0xffd0;
pub const WRAM_ROUTINE: u16 = 0xc800;
pub const MAIN: u16 = 0x0150;

fn filler(a: &mut Asm, rng: &mut Rng, max: u64) {
    for _ in 0..rng.below(max + 1) {
        let i = safe_instruction(rng);
        a.emit(&i);
    }
}

/// Generates the program into `case` (cart parameters, ROM blobs). Returns the profile used.
pub fn generate_program(rng: &mut Rng, case: &mut Case, thorough: bool) -> Profile {
    generate_program_biased(rng, case, thorough, false)
}

/// `far_calls`: banked cartridge with many far calls (used with a reduced translation arena, so that the cache is emptied
/// while code of several banks is being translated)
pub fn generate_program_biased(rng: &mut Rng, case: &mut Case, thorough: bool, far_calls: bool) -> Profile {
    let p = Profile {
        banked: far_calls || rng.chance(1, 2),
        timer: rng.chance(2, 3),
        stat: rng.chance(1, 2),
        vblank: rng.chance(1, 2),
        halts: rng.chance(1, 2),
        dma: rng.chance(1, 3),
        ram_code: rng.chance(1, 2),
        serial: rng.chance(1, 3),
        div_writes: rng.chance(1, 4),
        stack_in_hram: rng.chance(1, 8),
        statements: rng.range(4, if thorough { 40 } else { 16 }) as usize,
    };
    let cart_type = if p.banked { rng.pick(&[0x01u8, 0x03, 0x11, 0x13]) } else { rng.pick(&[0x00u8, 0x00, 0x01, 0x11]) };
    // mostly 4-16 banks; now and then 2 banks behind a controller, or 64 banks (MBC1 then needs its upper-bits register)
    let rom_code: u8 = if cart_type == 0 { 0 } else { rng.pick(&[1u8, 2, 3, 1, 2, 3, 1, 2, 3, 0, 5, 5]) };
    let banks = rom_banks(rom_code);
    case.set("cart_type", cart_type as i64);
    case.set("rom_code", rom_code as i64);
    case.set("ram_code", 3);
    case.set("rom_fill", 0);
    case.set("fill_byte", 0xc7);
    case.set("ramfill", 1 + rng.below(1 << 30) as i64);
    case.set("no_div_writes", (!p.div_writes) as i64);

    // RST vectors
    for v in (0u16..0x40).step_by(8) {
        let mut code = Vec::new();
        if rng.chance(1, 3) {
            code.extend(safe_instruction(rng));
        }
        code.push(0xc9);
        code.truncate(8);
        if *code.last().unwrap() != 0xc9 {
            code = vec![0xc9];
        }
        case.blobs.insert(patch_key(v as usize), code);
    }

    let mut a = Asm::new(MAIN);
    // ---- init
    a.emit(&[0xf3]);
    let sp: u16 = if p.stack_in_hram { 0xfffe } else { 0xdff0 };
    a.emit(&[0x31, sp as u8, (sp >> 8) as u8]);
    a.op16(0xc3, "init2"); // block boundary
    a.label("init2");
    if p.ram_code {
        // copy routines to work RAM and high RAM: LD HL,src; LD DE,dst; LD B,n; loop: LD A,(HL+); LD (DE),A; INC DE; DEC B; JR NZ,loop
        for (src, dst, len) in [("wram_src", WRAM_ROUTINE, 0x30u8), ("hram_src", HRAM_ROUTINE, 0x18u8)] {
            a.op16(0x21, src);
            a.emit(&[0x11, dst as u8, (dst >> 8) as u8, 0x06, len]);
            let l = format!("copy_{}", src);
            a.label(&l);
            a.emit(&[0x2a, 0x12, 0x13, 0x05]);
            a.jr(0x20, &l);
        }
    }
    if p.dma {
        a.op16(0x21, "dma_src");
        a.emit(&[0x11, HRAM_DMA as u8, (HRAM_DMA >> 8) as u8, 0x06, 0x0c]);
        a.label("copy_dma");
        a.emit(&[0x2a, 0x12, 0x13, 0x05]);
        a.jr(0x20, "copy_dma");
    }
    // device set-up
    if p.timer {
        a.emit(&[0x3e, rng.pick(&[0x00u8, 0x80, 0xf0, 0xfc, 0xc0]), 0xe0, 0x06]);
        a.emit(&[0x3e, rng.byte(), 0xe0, 0x05]);
        a.emit(&[0x3e, rng.pick(&[4u8, 5, 5, 6, 7]), 0xe0, 0x07]);
    }
    a.emit(&[0x3e, 0x80 | rng.byte(), 0xe0, 0x40]);
    if p.stat {
        a.emit(&[0x3e, rng.pick(&[0x08u8, 0x20, 0x40, 0x48, 0x10, 0x28]), 0xe0, 0x41]);
        a.emit(&[0x3e, rng.pick(&[0u8, 1, 10, 77, 143, 144, 150]), 0xe0, 0x45]);
    }
    a.emit(&[0x3e, rng.pick(&[0x10u8, 0x20, 0x00, 0x30]), 0xe0, 0x00]);
    let mut ie = 0u8;
    if p.vblank {
        ie |= 1;
    }
    if p.stat {
        ie |= 2;
    }
    if p.timer {
        ie |= 4;
    }
    if rng.chance(1, 2) {
        ie |= 0x10;
    }
    if rng.chance(1, 3) {
        ie |= 0x08;
    }
    a.emit(&[0x3e, ie, 0xe0, 0xff]);
    a.emit(&[0x3e, 0x00, 0xe0, 0x0f]);
    a.emit(&[0x21, 0x00, 0xc1]); // HL = 0xC100 for the rest of the program
    a.emit(&[0x01, 0x13, 0x80, 0x11, 0xd8, 0x80]);
    if rng.chance(4, 5) {
        a.emit(&[0xfb]);
    }
    a.op16(0xc3, "main");

    // ---- subroutines
    let nsub = rng.range(2, 5) as usize;
    for s in 0..nsub {
        a.label(&format!("sub{}", s));
        filler(&mut a, rng, 5);
        if s + 1 < nsub && rng.chance(1, 2) {
            a.op16(if rng.chance(1, 3) { rng.pick(&[0xc4u8, 0xcc, 0xd4, 0xdc]) } else { 0xcd }, &format!("sub{}", s + 1));
            filler(&mut a, rng, 2);
        }
        if rng.chance(1, 3) {
            a.emit(&[rng.pick(&[0xc0u8, 0xc8, 0xd0, 0xd8])]);
            filler(&mut a, rng, 2);
        }
        a.emit(&[0xc9]);
    }

    // ---- interrupt handlers
    for (i, v) in [0x40u16, 0x48, 0x50, 0x58, 0x60].iter().enumerate() {
        let name = format!("handler{}", i);
        let at = a.here();
        case.blobs.insert(patch_key(*v as usize), vec![0xc3, at as u8, (at >> 8) as u8]);
        a.label(&name);
        a.emit(&[0xf5]); // PUSH AF
        a.emit(&[0xfa, 0x80 + i as u8, 0xc0, 0x3c, 0xea, 0x80 + i as u8, 0xc0]); // counter in WRAM
        if rng.chance(1, 3) {
            filler(&mut a, rng, 3);
        }
        if i == 2 && rng.chance(1, 3) {
            a.emit(&[0x3e, rng.byte(), 0xe0, 0x05]); // re-arm TIMA
        }
        a.emit(&[0xf1]); // POP AF
        if rng.chance(2, 3) {
            a.emit(&[0xd9]);
        } else {
            a.emit(&[0xfb, 0xc9]);
        }
    }

    // ---- main loop
    a.label("main");
    // one program in twelve contains a long straight-line stretch (hundreds to a few thousand machine cycles in one block)
    let long_at = if rng.chance(1, 12) { rng.below(p.statements as u64) as usize } else { usize::MAX };
    for st in 0..p.statements {
        if st == long_at {
            let n = rng.pick(&[300usize, 600, 1200, 2500]);
            for _ in 0..n {
                let i = safe_instruction(rng);
                a.emit(&i);
            }
        }
        let mut kind = rng.below(16);
        if far_calls && kind < 6 {
            kind = 12;
        }
        match kind {
            0 | 1 => filler(&mut a, rng, 8),
            2 | 3 => {
                let l = format!("loop{}", st);
                a.emit(&[0x06, rng.range(1, 6) as u8]);
                a.label(&l);
                for _ in 0..rng.below(4) {
                    // body must leave B alone
                    let i = safe_instruction(rng);
                    let touches_b = matches!(i[0], 0x04 | 0x05 | 0x06 | 0x01 | 0x03 | 0x0b) || (i[0] & 0xf8) == 0x40 || (i[0] == 0xcb && (i[1] & 7) == 0);
                    if !touches_b {
                        a.emit(&i);
                    }
                }
                a.emit(&[0x05]);
                a.jr(0x20, &l);
            }
            4 | 5 => a.op16(if rng.chance(1, 4) { rng.pick(&[0xc4u8, 0xcc, 0xd4, 0xdc]) } else { 0xcd }, &format!("sub{}", rng.below(nsub as u64))),
            6 => a.emit(&[rng.pick(&[0xc7u8, 0xcf, 0xd7, 0xdf, 0xe7, 0xef, 0xf7, 0xff])]),
            7 => {
                // jump through HL
                let l = format!("tbl{}", st);
                a.emit(&[0xe5]);
                a.op16(0x21, &l);
                a.emit(&[0xe9]);
                filler(&mut a, rng, 2); // skipped
                a.label(&l);
                a.emit(&[0xe1]);
            }
            8 => {
                if p.halts {
                    a.emit(&[0x76]);
                } else {
                    filler(&mut a, rng, 3);
                }
            }
            9 => {
                a.emit(&[0xf3]);
                filler(&mut a, rng, 4);
                a.emit(&[0xfb]);
                if rng.chance(1, 2) {
                    filler(&mut a, rng, 1);
                }
            }
            10 => {
                if p.dma {
                    a.emit(&[0x3e, rng.pick(&[0xc0u8, 0xc1, 0x80, 0x00, 0x40, 0xd0, 0xff, 0xa0])]);
                    a.emit(&[0xcd, HRAM_DMA as u8, (HRAM_DMA >> 8) as u8]);
                } else {
                    filler(&mut a, rng, 3);
                }
            }
            11 => {
                if p.ram_code {
                    let t = if rng.chance(1, 2) { WRAM_ROUTINE } else { HRAM_ROUTINE };
                    a.emit(&[0xcd, t as u8, (t >> 8) as u8]);
                } else {
                    filler(&mut a, rng, 3);
                }
            }
            12 => {
                if p.banked && cart_type != 0 {
                    // bank 1 (the tag a freshly created cache starts with) is over-represented on purpose
                    let b = if rng.chance(1, 3) { 1 } else { 1 + rng.below(banks as u64 - 1) as u8 };
                    a.emit(&[0x3e, b, 0xea, 0x00, 0x20 + rng.below(0x20) as u8]);
                    // entry 4 (0x4400) is the routine that remaps the bank it is running from
                    let e = 0x4000 + 0x100 * if rng.chance(1, 5) { 4 } else { rng.below(4) as u16 };
                    a.emit(&[0xcd, e as u8, (e >> 8) as u8]);
                    if rng.chance(1, 6) {
                        // the bank count itself: wraps to bank 0, so 0x4000 shows the RST 00 routine of the fixed bank
                        a.emit(&[0x3e, banks as u8, 0xea, 0x00, 0x21, 0xcd, 0x00, 0x40]);
                    }
                } else {
                    filler(&mut a, rng, 3);
                }
            }
            13 => {
                if p.serial {
                    a.emit(&[0x3e, 0x20 + rng.below(0x5f) as u8, 0xe0, 0x01, 0x3e, rng.pick(&[0x81u8, 0x80, 0x01, 0xff]), 0xe0, 0x02]);
                } else {
                    filler(&mut a, rng, 3);
                }
            }
            14 => {
                let l = format!("skip{}", st);
                if rng.chance(1, 2) {
                    a.jr(rng.pick(&[0x20u8, 0x28, 0x30, 0x38, 0x18]), &l);
                } else {
                    a.op16(rng.pick(&[0xc2u8, 0xca, 0xd2, 0xda]), &l);
                }
                filler(&mut a, rng, 3);
                a.label(&l);
            }
            _ => {
                if p.div_writes && rng.chance(1, 2) {
                    a.emit(&[0xe0, 0x04]);
                } else if p.timer {
                    a.emit(&[0x3e, rng.pick(&[4u8, 5, 6, 7, 0, 1]), 0xe0, 0x07]);
                } else {
                    a.emit(&[0xf0, rng.pick(&[0x04u8, 0x05, 0x44, 0x41, 0x0f, 0x00]), 0xea, 0x90, 0xc0]);
                }
            }
        }
    }
    a.op16(0xc3, "main");

    // ---- routine sources (copied at init)
    a.label("wram_src");
    {
        let start = a.here();
        filler(&mut a, rng, 6);
        a.emit(&[0x06, rng.range(1, 4) as u8]);
        // loop inside the RAM routine: DEC B; JR NZ,-3
        a.emit(&[0x05, 0x20, 0xfd]);
        a.emit(&[0xc9]);
        while a.here() - start < 0x30 {
            a.emit(&[0xc9]);
        }
    }
    a.label("hram_src");
    {
        let start = a.here();
        filler(&mut a, rng, 3);
        a.emit(&[0xc9]);
        while a.here() - start < 0x18 {
            a.emit(&[0xc9]);
        }
    }
    a.label("dma_src");
    // LDH (0x46),A; LD A,0x28; wait: DEC A; JR NZ,wait; RET   (12 bytes)
    a.emit(&[0xe0, 0x46, 0x3e, rng.pick(&[0x28u8, 0x10, 0x02, 0x30]), 0x3d, 0x20, 0xfd, 0xc9, 0xc9, 0xc9, 0xc9, 0xc9]);
    let code = a.finish();
    case.set("prog_len", code.len() as i64);
    case.blobs.insert(patch_key(MAIN as usize), code);

    // ---- far routines in the switchable banks (different per bank; entries 0-3 never touch bank registers, entry 4 selects
    // another bank in mid-block and carries on with what that bank holds behind the write)
    if cart_type != 0 {
        let pre = rng.below(3) as usize;
        // one program in four remaps through a 16-bit store (LD (a16),SP with both bytes landing on ROM-bank registers: the
        // first byte maps the new bank, the second writes the same number again); same layout in every bank
        let word_store = rng.chance(1, 4);
        for b in 1..banks {
            {
                let to = 1 + rng.below(banks as u64 - 1) as u8;
                let mut r = Asm::new(0x4400);
                r.emit(&vec![0x0cu8; pre]);
                if word_store {
                    // LD HL,SP+0; LD SP,to|to<<8; LD (0x2xff),SP; -- continuation: LD SP,HL; LD HL,0xC100
                    r.emit(&[0xf8, 0x00, 0x31, to, to, 0x08, 0xff, 0x20 + rng.below(0x1f) as u8]);
                    r.emit(&[0xf9, 0x21, 0x00, 0xc1]);
                } else if rng.chance(1, 4) {
                    // upper bank bits (MBC1, large ROMs) / RAM bank or RTC select (MBC3: no remapping, the block carries on)
                    r.emit(&[0x3e, rng.below(4) as u8, 0xea, 0x00, 0x40 + rng.below(0x20) as u8]);
                } else {
                    r.emit(&[0x3e, to, 0xea, 0x00, 0x20 + rng.below(0x20) as u8]);
                }
                // continuation, reached under the bank selected by whichever bank's first half ran
                r.emit(&[0x3e, b as u8, 0xea, 0xa4, 0xc0]);
                filler(&mut r, rng, 3);
                r.emit(&[0xc9]);
                case.blobs.insert(patch_key(rom_offset(0x4400, b)), r.finish());
            }
            for e in 0..4u16 {
                let mut r = Asm::new(0x4000 + 0x100 * e);
                r.emit(&[0x3e, b as u8, 0xea, 0xa0 + e as u8, 0xc0]);
                filler(&mut r, rng, 4);
                if rng.chance(1, 4) {
                    let t = 0x4000 + 0x100 * ((e + 1) % 4);
                    r.emit(&[0xcd, t as u8, (t >> 8) as u8]);
                }
                r.emit(&[0xc9]);
                let at = r.base;
                case.blobs.insert(patch_key(rom_offset(at as usize, b)), r.finish());
            }
        }
    } else {
        for e in 0..5u16 {
            case.blobs.insert(patch_key(0x4000 + 0x100 * e as usize), vec![0xc9]);
        }
    }
    p
}
