//! fd 1 (the guest serial port's sink and the core's diagnostics) is owned by
//! the simulator inside workers: it is redirected onto a memfd whose growth is
//! read back after each replica step.

use std::sync::atomic::{AtomicI32, AtomicU64, Ordering};

static CAP_FD: AtomicI32 = AtomicI32::new(-1);
static CAP_POS: AtomicU64 = AtomicU64::new(0);

pub fn redirect_stdout() {
    let name = std::ffi::CString::new("gbsim-stdout").unwrap();
    let fd = unsafe { libc::memfd_create(name.as_ptr(), 0) };
    assert!(fd >= 0);
    let r = unsafe { libc::dup2(fd, 1) };
    assert!(r == 1);
    CAP_FD.store(fd, Ordering::SeqCst);
    CAP_POS.store(0, Ordering::SeqCst);
}

pub fn active() -> bool {
    CAP_FD.load(Ordering::SeqCst) >= 0
}

/// bytes written to fd 1 since the previous call
pub fn take() -> Vec<u8> {
    let fd = CAP_FD.load(Ordering::SeqCst);
    if fd < 0 {
        return Vec::new();
    }
    let end = unsafe { libc::lseek(1, 0, libc::SEEK_CUR) };
    if end < 0 {
        return Vec::new();
    }
    let end = end as u64;
    let pos = CAP_POS.load(Ordering::SeqCst);
    if end <= pos {
        return Vec::new();
    }
    let mut buf = vec![0u8; (end - pos) as usize];
    let n = unsafe { libc::pread(fd, buf.as_mut_ptr() as *mut _, buf.len(), pos as libc::off_t) };
    if n > 0 {
        buf.truncate(n as usize);
    } else {
        buf.clear();
    }
    CAP_POS.store(end, Ordering::SeqCst);
    // keep the memfd from growing without bound
    if end > (1 << 20) {
        unsafe {
            libc::ftruncate(fd, 0);
            libc::lseek(1, 0, libc::SEEK_SET);
        }
        CAP_POS.store(0, Ordering::SeqCst);
    }
    buf
}
